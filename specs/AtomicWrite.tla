----------------------------- MODULE AtomicWrite -----------------------------
(* C12: atomic file replacement (srctools.AtomicWriter, BSP.save).              *)
(*                                                                              *)
(* Writers w \in W replace their own destination file in one shared directory.  *)
(* Every action is one file-system operation (or one step of the caller's       *)
(* body) of one writer; actions of different writers interleave freely.  The    *)
(* environment may kill a writer at any point (Crash), make one operation fail  *)
(* with OSError (the "fault" results, at most Faults times) and the caller's    *)
(* body may raise at any point (BodyError).  How the io stack buffers is left   *)
(* open: a raw write may carry any part of the bytes accepted so far.           *)
(*                                                                              *)
(* The design: create a temp exclusively under any free name; write; close;    *)
(* if and only if the body finished and closing succeeded, rename the temp over *)
(* the destination; in every other handled case unlink the temp and re-raise.   *)
EXTENDS AtomicWriteOps, TLC, Json

CONSTANTS W,          \* writers
          MaxBody,    \* at most this many body write calls (1 byte each) per writer
          Faults,     \* number of injected OSErrors per behaviour
          Stale,      \* names of temp-like files that may be lying around at the start
          NNames,     \* names 1..NNames are available for temp files
          AnyName,    \* TRUE: a writer tries any name it has not tried; FALSE: the lowest such name
          DirMissing, \* TRUE: also start from a missing directory
          AnySplit,   \* TRUE: a raw write may carry any non-empty part of the pending bytes
          KeepHist,   \* TRUE: remember the behaviour (for enumerating schedules)
          Reusers,    \* writers whose object may be entered again after it returned
          MaxRounds,  \* ... up to this many rounds
          MinBody     \* a body that returns normally has made at least this many write calls

VARIABLES dir, dest, tmp, wr, faults,
          orig,       \* what each destination held at the start
          hist,       \* sequence of events (only if KeepHist)
          init0       \* the initial choices

vars == <<dir, dest, tmp, wr, faults, orig, hist, init0>>
St == [dir |-> dir, dest |-> dest, tmp |-> tmp, wr |-> wr, faults |-> faults]

Init == /\ \E d \in (IF DirMissing THEN BOOLEAN ELSE {TRUE}), o \in [W -> {"old", "absent"}], s \in SUBSET Stale :
              /\ d = FALSE => (s = {} /\ \A w \in W : o[w] = "absent")
              /\ dir = d /\ orig = o /\ dest = o
              /\ tmp = [k \in s |-> [owner |-> "stale", data |-> TRUE]]
              /\ init0 = [dir |-> d, orig |-> o, stale |-> s]
        /\ wr = [w \in W |-> [NewWriter EXCEPT !.base = dest[w]]]
        /\ faults = Faults
        /\ hist = <<>>

Ev(w, op, res, n, i) == [w |-> w, op |-> op, res |-> res, n |-> n, i |-> i]

Do(e) == /\ Guard(St, e) = ""
         /\ LET s == Apply(St, e) IN
              /\ dir' = s.dir /\ dest' = s.dest /\ tmp' = s.tmp /\ wr' = s.wr /\ faults' = s.faults
         /\ hist' = IF KeepHist THEN Append(hist, e) ELSE hist
         /\ UNCHANGED <<orig, init0>>

(* ---- one writer's own steps --------------------------------------------------- *)
\* (the operators of AtomicWriteOps also accept a writer that skips or repeats the mkdir, and any way of
\* reporting the outcome; the modelled design makes sure of the directory once and raises on failure)
Mkdir(w)     == wr[w].pc = "idle" /\ \E res \in {"ok", "exists"} : Do(Ev(w, "mkdir", res, 0, 0))
Untried(w)   == (1..NNames) \ wr[w].tried
Picks(w)     == IF AnyName \/ Untried(w) = {} THEN Untried(w)
                ELSE {CHOOSE k \in Untried(w) : \A j \in Untried(w) : k <= j}
TryOpen(w)   == wr[w].pc = "open" /\ \E k \in Picks(w), res \in {"ok", "exists"} : Do(Ev(w, "open", res, 0, k))
BodyCall(w)  == wr[w].acc < MaxBody /\ Do(Ev(w, "bcall", "ok", 1, 0))
RawWrite(w)  == \E n \in (IF AnySplit THEN 1..(wr[w].acc - wr[w].raw) ELSE {wr[w].acc - wr[w].raw}) :
                    Do(Ev(w, "write", "ok", n, 0))
EndBody(w)   == wr[w].acc >= MinBody /\ Do(Ev(w, "endbody", "ok", 0, 0))
Close(w)     == Do(Ev(w, "close", "ok", 0, 0))
Rename(w)    == Do(Ev(w, "replace", "ok", 1, wr[w].i))
Unlink(w)    == Do(Ev(w, "unlink", "ok", 0, wr[w].i))
Return(w)    == wr[w].pc \in {"done", "failed"} /\ Do(Ev(w, "end", IF wr[w].pc = "done" THEN "ok" ELSE "raised", 0, 0))
Progress(w)  == \/ Mkdir(w) \/ TryOpen(w) \/ BodyCall(w) \/ RawWrite(w) \/ EndBody(w)
                \/ Close(w) \/ Rename(w) \/ Unlink(w) \/ Return(w)

(* ---- the environment ------------------------------------------------------------ *)
BodyError(w) == Do(Ev(w, "bodyerr", "ok", 0, 0))
\* the caller uses the same writer object for another write of the same destination
Reenter(w)   == w \in Reusers /\ wr[w].round < MaxRounds /\ Do(Ev(w, "reenter", "ok", 0, 0))
Crash(w)     == ~wr[w].ret /\ Do(Ev(w, "crash", "ok", 0, 0))
Fault(w)     == \/ (wr[w].pc = "idle" /\ Do(Ev(w, "mkdir", "fault", 0, 0)))
                \/ (wr[w].pc = "open" /\ \E k \in Picks(w) : Do(Ev(w, "open", "fault", 0, k)))
                \/ \E n \in (IF AnySplit THEN 1..(wr[w].acc - wr[w].raw) ELSE {wr[w].acc - wr[w].raw}) :
                       Do(Ev(w, "write", "fault", n, 0))
                \/ Do(Ev(w, "close", "fault", 0, 0))
                \/ Do(Ev(w, "replace", "fault", 1, wr[w].i))
                \/ Do(Ev(w, "unlink", "fault", 0, wr[w].i))

Next == \E w \in W : Progress(w) \/ BodyError(w) \/ Crash(w) \/ Fault(w) \/ Reenter(w)

Spec == Init /\ [][Next]_vars
FairSpec == Spec /\ \A w \in W : WF_vars(Progress(w))

(* ---- the listed property ---------------------------------------------------------- *)
\* the destination holds the complete previous or the complete new contents in every state
DestOldOrNew == DestIntact(St)
\* a handled failure leaves the previous contents and no temp file (unless unlink itself failed)
FailedIsClean == FailedClean(St)
DoneIsNew == DoneNew(St)
TempsDisjoint == NoSharedTemp(St) /\ HoldsOwn(St)
DeadIsIntact == DeadIntact(St)
\* nobody ever removes or renames a temp file of another owner; other destinations are never touched
OthersUntouched == [][\A w \in W :
        /\ \A k \in DOMAIN tmp : (tmp[k].owner # w /\ wr'[w] # wr[w]) => (k \in DOMAIN tmp' /\ tmp'[k] = tmp[k])
        /\ \A v \in W : (v # w /\ wr'[w] # wr[w]) => dest'[v] = dest[v]]_vars
\* stale files of earlier processes are never modified
StaleKept == \A k \in init0.stale : k \in DOMAIN tmp /\ tmp[k] = [owner |-> "stale", data |-> TRUE]

\* a writer that is not killed returns (under weak fairness of its own steps)
Finished(w) == wr[w].pc = "dead" \/ wr[w].ret
Termination == \A w \in W : <>Finished(w)
(* ---- schedule enumeration ----------------------------------------------------------- *)
AllFinished == \A w \in W : Finished(w)
\* Partial-order reduction for schedule enumeration: body steps, raw writes, close and the return
\* touch only the writer's own open file, so they commute with every step of the other writer;
\* only the directory-level operations (mkdir, exclusive open, rename, unlink) are interleaved in
\* every order.  While some writer is in a local phase, the first such writer moves.
LocalPhase(w) == ~Finished(w) /\ (wr[w].pc \in {"body", "closing", "done", "failed"} \/ (wr[w].pc = "idle" /\ dir))
Canonical == LET L == {x \in W : LocalPhase(x)} IN
                L # {} => LET v == CHOOSE x \in L : TRUE IN wr'[v] # wr[v]
\* at most one abnormal event (crash, injected OSError, body exception) per enumerated schedule
Abnormal == Cardinality({w \in W : wr[w].pc = "dead"}) + (Faults - faults)
            + Cardinality({w \in W : wr[w].err = "body"})
OneAbnormal == Abnormal <= 1
\* two writers: the first replaces an existing file, the second creates a new one
MixedOrig == \A w, v \in W : (w # v /\ init0.orig[w] = init0.orig[v]) => FALSE
\* schedules with re-use are printed once every re-using writer is in its last round (or dead)
LastRound == \A w \in Reusers : wr[w].round = MaxRounds \/ wr[w].pc = "dead"
NoAbnormal == Abnormal = 0
\* re-use after a handled failure: the only abnormal event is a body exception or a failing close
\* (final flush or close itself) or rename in the first round of a writer that is used again
AbnStep == \/ faults' < faults
           \/ \E w \in W : wr'[w].pc = "dead" /\ wr[w].pc # "dead"
           \/ \E w \in W : wr'[w].err = "body" /\ wr[w].err # "body"
ReuseAbnormal == AbnStep => \E w \in Reusers :
                    /\ wr[w].round < MaxRounds /\ wr'[w] # wr[w] /\ wr'[w].pc # "dead"
                    /\ wr[w].pc \in {"body", "closing", "renaming"}
                    /\ (faults' < faults => wr[w].pc \in {"closing", "renaming"})
EmitPath == (AllFinished' /\ LastRound') => PrintT(ToJson([tag |-> "PATH", init |-> init0, ev |-> hist']))
=============================================================================
