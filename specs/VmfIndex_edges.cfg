SPECIFICATION Spec
CONSTANTS
  Ent = {"e1", "e2"}
  Active = {"e1"}
  ClassIn = {"c", "C", "worldspawn"}
  NameIn = {"", "a", "A"}
  NameU = {"", "a", "A", "a1", "A1"}
  KeySp = {"targetname", "TargetName"}
  Prefixes = {"", "a"}
  IterOps = {"create_ent", "remove_ent", "set_class", "set_name", "clear"}
  ScanKinds = {"search_star", "search_exact", "items_class", "items_target"}
  CopyMaps = {"m1", "m2"}
  PClass = {"c", "C"}
  PNames = {"", "a", "A"}
  SpawnIn = {"worldspawn", "WorldSpawn", "c"}
  SpawnQuiet = TRUE
  SpawnNames = {"A"}
INVARIANT Agree
INVARIANT SpawnRule
INVARIANT SearchAgree
INVARIANT NoEmptySets
INVARIANT OnlyOwn
PROPERTY Isolated
PROPERTY SpawnFixed
CONSTRAINT PassiveBound
CONSTRAINT SpawnBound
VIEW View
ACTION_CONSTRAINT Emit
CHECK_DEADLOCK FALSE
