-------------------------------- MODULE Escape --------------------------------
(* C02: escape_text and the tokenizer are exact inverses.                       *)
(* For every string s over Alphabet up to MaxLen and both escaping modes the    *)
(* text  " Escape(s, ml) "  is fed, one character per step, to the lexer of     *)
(* TokenizerOps (whose quoted-string reader is the step machine of EscapeOps).  *)
(* The listed property is the set of invariants below.                          *)
EXTENDS TokenizerOps, FiniteSets, TLC, Json

CONSTANTS Alphabet,     \* set of code points
          MaxLen,       \* strings of length 0..MaxLen
          StepLen,      \* strings up to this length are also run step by step
          LexLen,       \* strings up to this length: the law on the whole lexer under every option set of OptSets
          OptSets       \* tokenizer option sets (all with escapes enabled) the law is checked under

\* the characters that matter to escaping: \ " ' LF CR TAB \v \b \f \a ? / n a
Alpha14 == {92, 34, 39, 10, 13, 9, 11, 8, 12, 7, 63, 47, 110, 97}
EscOptSets == {TokDefaults, KvOpts, [AllTrue EXCEPT !.esc = TRUE], [AllFalse EXCEPT !.esc = TRUE]}

Texts == UNION {[1..k -> Alphabet] : k \in 0..MaxLen}
RECURSIVE Pow(_, _)
Pow(b, k) == IF k = 0 THEN 1 ELSE b * Pow(b, k - 1)
RECURSIVE SumPow(_, _)
SumPow(b, k) == IF k < 0 THEN 0 ELSE Pow(b, k) + SumPow(b, k - 1)
FamilySize == 2 * SumPow(Cardinality(Alphabet), MaxLen)
RECURSIVE SetToSeq(_)
SetToSeq(S) == IF S = {} THEN <<>> ELSE LET x == CHOOSE y \in S : \A z \in S : y <= z IN <<x>> \o SetToSeq(S \ {x})
ASSUME PrintT(ToJson([tag |-> "FAMILY", n |-> FamilySize, alphabet |-> SetToSeq(Alphabet), maxlen |-> MaxLen]))
ASSUME TableOK
ASSUME \A o \in OptSets : o.esc

VARIABLES s, ml,        \* the string (grown one character at a time while p = 0) and the mode
          p,            \* characters of Text delivered so far + 1
          st,           \* lexer state
          toks,         \* tokens returned so far
          calls,        \* completed tokenizer calls after the first EOF
          act
vars == <<s, ml, p, st, toks, calls>>

E == Escape(s, ml)
Text == <<DQ>> \o E \o <<DQ>>
Expect(line) == <<[t |-> "STRING", v |-> s, l |-> line]>>
LinesOf(str, m) == 1 + (IF m THEN CountLF(str, 1) ELSE 0)
Cf == Cfg(TokDefaults)

\* p = 0: the string is still being chosen (every string of the family is a state of this
\* phase, so the laws below are evaluated on each); Start begins the step-by-step run.
Init == /\ s = <<>> /\ ml \in BOOLEAN
        /\ p = 0 /\ st = LInit /\ toks = <<>> /\ calls = 0
        /\ act = "init"
Grow == /\ p = 0 /\ Len(s) < MaxLen
        /\ \E c \in Alphabet : s' = Append(s, c)
        /\ act' = "grow"
        /\ UNCHANGED <<ml, p, st, toks, calls>>
Start == /\ p = 0 /\ Len(s) <= StepLen
         /\ p' = 1 /\ act' = "start"
         /\ UNCHANGED <<s, ml, st, toks, calls>>

Stepping == p >= 1 /\ calls < 2
Deliver(name, mode) ==
    /\ Stepping /\ st.m = mode
    /\ LET r == Step(st, CharAt(Text, p), Cf) IN
        /\ r.err = NoErr /\ ~r.rew           \* an error or a rewind here would be a model violation: see NoError
        /\ st' = r.st
        /\ p' = p + 1
        /\ toks' = IF r.emit = <<>> THEN toks ELSE Append(toks, LTok(r.emit[1], r.st.l))
        /\ calls' = IF r.emit # <<>> /\ r.emit[1].t = "EOF" THEN calls + 1 ELSE calls
    /\ act' = name
    /\ UNCHANGED <<s, ml>>
Open == p = 1 /\ Deliver("open", "Top")
Char == (CharAt(Text, p) \notin {DQ, BSL} /\ p <= Len(E) + 1) /\ Deliver("char", "Str")
Backslash == CharAt(Text, p) = BSL /\ Deliver("backslash", "Str")
Letter == p > 1 /\ Deliver("letter", "StrEsc")
Close == CharAt(Text, p) = DQ /\ Deliver("close", "Str")
Eof == p > Len(Text) /\ Deliver("eof", "Top")
Next == Grow \/ Start \/ Open \/ Char \/ Backslash \/ Letter \/ Close \/ Eof
Spec == Init /\ [][Next]_vars

(* ---- the listed property ------------------------------------------------------ *)
\* on the string reader alone: un-escaping gives s back, closed by the appended quote only
Inverse == p = 0 => InverseLaw(s, ml)
\* on the whole lexer, under several option sets: exactly one STRING token, then EOF
LexInverse == (p = 0 /\ Len(s) <= LexLen) => \A o \in OptSets :
    LET r == Lex(Text, Cfg(o)) IN
        /\ r.err = NoErrL
        /\ r.toks = Expect(LinesOf(s, ml)) \o <<[t |-> "EOF", v |-> <<>>, l |-> LinesOf(s, ml)]>>
NoQuote == p = 0 => NoRawQuote(E)
NoBreak == (p = 0 /\ ~ml) => NoRawBreak(E)
Paired == p = 0 => PairsOK(E, 1)
(* ---- the same, as invariants of the step machine -------------------------------- *)
\* the string is not closed early: no token before the final quote was delivered
NoEarlyClose == (Stepping /\ p > 1 /\ p <= Len(E) + 1) => (toks = <<>> /\ st.m \in {"Str", "StrEsc"})
\* no step of the run can fail or rewind
NoError == Stepping => LET r == Step(st, CharAt(Text, p), Cf) IN r.err = NoErr /\ ~r.rew
\* once closed: the token is s, then EOF for ever
Closed == (Stepping /\ p > Len(Text)) =>
    /\ Len(toks) >= 1 /\ toks[1] = Expect(LinesOf(s, ml))[1]
    /\ \A k \in 2..Len(toks) : toks[k].t = "EOF" /\ toks[k].l = LinesOf(s, ml)
    /\ Len(toks) = 1 + calls /\ st = [LInit EXCEPT !.l = LinesOf(s, ml)]
\* every run terminates with two EOF calls (no deadlock before)
Finishes == Stepping => ENABLED Next
=============================================================================
