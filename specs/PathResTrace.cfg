INIT Init
NEXT Next
CONSTANTS
  Alphabet = {"..", ".", "", "sub", "in.txt", "rootx", "root", "B", "A"}
  UAlphabet = {"..", ".", "", "a", "B"}
  MaxLen = 5
INVARIANT Checked
POSTCONDITION AllConsumed
CHECK_DEADLOCK FALSE
