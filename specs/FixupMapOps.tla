------------------------------ MODULE FixupMapOps ------------------------------
(* EntityFixup as a mapping (srctools.vmf.EntityFixup): instance $replace        *)
(* variables, addressed case-insensitively and with an optional leading '$'.    *)
(* State: a function from FOLDED variable name to [var, val, idx] where var is  *)
(* the spelling first used (without '$'), val the value and idx the replaceNN   *)
(* index.  Extends the index-only model of IdAllocOps (C08) to the whole        *)
(* mapping behaviour.  A spelling is [name |-> folded name, sp |-> spelling     *)
(* without '$', dollar |-> BOOLEAN].                                            *)
EXTENDS Integers, FiniteSets, Sequences

Idx(f) == {f[k].idx : k \in DOMAIN f}
Lowest(ix) == CHOOSE n \in 1..(Cardinality(ix) + 1) : n \notin ix /\ \A m \in 1..(n - 1) : m \in ix

\* fixup[spelling] = val : an existing variable keeps its first spelling and index
Set(f, s, val) ==
    IF s.name \in DOMAIN f
    THEN [f EXCEPT ![s.name].val = val]
    ELSE [k \in DOMAIN f \cup {s.name} |->
            IF k = s.name THEN [var |-> s.sp, val |-> val, idx |-> Lowest(Idx(f))] ELSE f[k]]
\* del fixup[spelling] : silently nothing when absent
Del(f, s) == [k \in DOMAIN f \ {s.name} |-> f[k]]
\* fixup[spelling] / get : the value, "" when absent (lookups never fail)
Get(f, s) == IF s.name \in DOMAIN f THEN f[s.name].val ELSE ""
Has(f, s) == s.name \in DOMAIN f
\* setdefault(spelling, default): the stored value, or stores and returns the default
\* (as coded, a new variable is stored under its FOLDED name here, unlike Set which keeps the
\* spelling - a deviation from the class docstring, outside the listed properties)
SetDefault(f, s, d) == IF s.name \in DOMAIN f THEN [s |-> f, res |-> f[s.name].val]
                       ELSE [s |-> Set(f, [s EXCEPT !.sp = s.name], d), res |-> d]

\* export order: by index; each line is "replaceNN" "$<first spelling> <value>"
RECURSIVE ByIdx(_, _)
ByIdx(f, todo) ==
    IF todo = {} THEN <<>>
    ELSE LET k == CHOOSE x \in todo : \A y \in todo : f[x].idx <= f[y].idx
         IN <<[idx |-> f[k].idx, var |-> f[k].var, val |-> f[k].val]>> \o ByIdx(f, todo \ {k})
Export(f) == ByIdx(f, DOMAIN f)

Distinct(f) == \A a, b \in DOMAIN f : a # b => f[a].idx # f[b].idx
Positive(f) == \A a \in DOMAIN f : f[a].idx >= 1
=============================================================================
