------------------------------ MODULE OutputOps ------------------------------
(* vmf.Output: the text form of an entity output, its parser and combine().     *)
(* Strings are sequences of symbols; "@" stands for the literal prefix          *)
(* "instance:" (matched case-insensitively by the code), "E" for the post-L4D   *)
(* separator character 0x1B, "," and ";" for themselves, anything else is an    *)
(* ordinary character.  NoInst marks "no instance name" (None).                 *)
EXTENDS Integers, Sequences, FiniteSets

NoInst == <<"~none~">>
Has(s, c) == \E i \in 1..Len(s) : s[i] = c
IndexOf(s, c) == CHOOSE i \in 1..Len(s) : s[i] = c /\ \A j \in 1..(i - 1) : s[j] # c

\* str.split(sep): the list of parts
RECURSIVE Split(_, _)
Split(s, c) == IF ~Has(s, c) THEN <<s>>
               ELSE LET i == IndexOf(s, c) IN <<SubSeq(s, 1, i - 1)>> \o Split(SubSeq(s, i + 1, Len(s)), c)
RECURSIVE Join(_, _)
Join(parts, c) == IF Len(parts) = 0 THEN <<>>
                  ELSE IF Len(parts) = 1 THEN parts[1]
                  ELSE parts[1] \o <<c>> \o Join(Tail(parts), c)

\* Output.parse_name: 'instance:local;Command' -> (local, Command); error without ';'
ParseName(n) ==
    IF Len(n) >= 1 /\ n[1] = "@"
    THEN IF Has(n, ";")
         THEN LET i == IndexOf(n, ";") IN [ok |-> TRUE, inst |-> SubSeq(n, 2, i - 1), cmd |-> SubSeq(n, i + 1, Len(n))]
         ELSE [ok |-> FALSE, inst |-> NoInst, cmd |-> n]
    ELSE [ok |-> TRUE, inst |-> NoInst, cmd |-> n]
\* exp_out / exp_in: an EMPTY instance name counts as none (truthiness test in the code)
Exp(inst, cmd) == IF inst # NoInst /\ inst # <<>> THEN <<"@">> \o inst \o <<";">> \o cmd ELSE cmd

\* as_keyvalue(): key and value texts (delay and times are given as already formatted texts)
Key(o) == Exp(o.instOut, o.out)
Value(o) == LET sep == IF o.comma THEN "," ELSE "E"
            IN Join(<<o.target, Exp(o.instIn, o.inp), o.params, o.delay, o.times>>, sep)

\* Output.parse(key, value)
Parse(key, val) ==
    LET esc == Has(val, "E")
        parts == IF esc THEN Split(val, "E") ELSE Split(val, ",")
        n == Len(parts)
        five == IF n = 5 THEN [ok |-> TRUE, p |-> parts]
                ELSE IF ~esc /\ n > 5
                     THEN [ok |-> TRUE, p |-> <<parts[1], parts[2], Join(SubSeq(parts, 3, n - 2), ","), parts[n - 1], parts[n]>>]
                     ELSE [ok |-> FALSE, p |-> <<>>]
    IN  IF ~five.ok THEN [ok |-> FALSE, err |-> "ValueError"]
        ELSE LET po == ParseName(key) pi == ParseName(five.p[2])
             IN IF ~po.ok \/ ~pi.ok THEN [ok |-> FALSE, err |-> "ValueError"]
                ELSE [ok |-> TRUE,
                      o |-> [out |-> po.cmd, instOut |-> po.inst, target |-> five.p[1], inp |-> pi.cmd, instIn |-> pi.inst,
                             params |-> five.p[3], delay |-> five.p[4], times |-> five.p[5], comma |-> ~esc]]

\* When does the text form carry the output faithfully?  (the format's own limits)
Plain(s) == ~Has(s, "E") /\ ~Has(s, ",")
Representable(o) ==
    /\ ~Has(o.target, "E") /\ ~Has(o.inp, "E") /\ ~Has(o.params, "E")
    /\ (o.instIn # NoInst => ~Has(o.instIn, "E")) /\ (o.instOut # NoInst => TRUE)
    /\ (o.comma => ~Has(o.target, ",") /\ ~Has(o.inp, ",") /\ (o.instIn # NoInst => ~Has(o.instIn, ",")))
    \* a separator must actually occur for the reader to know which one was used:
    \* with the ESC form it always does; the comma form is only recognised when no ESC is present
    /\ (o.instIn # NoInst => o.instIn # <<>> /\ ~Has(o.instIn, ";"))
    /\ (o.instOut # NoInst => o.instOut # <<>> /\ ~Has(o.instOut, ";"))
    /\ (o.instIn = NoInst => ~(Len(o.inp) >= 1 /\ o.inp[1] = "@"))
    /\ (o.instOut = NoInst => ~(Len(o.out) >= 1 /\ o.out[1] = "@"))
RoundTrips(o) == LET r == Parse(Key(o), Value(o)) IN r.ok /\ r.o = o

\* Output.combine(first, second); times are integers here (-1 = forever)
Combine(a, b) == [out |-> a.out, instOut |-> a.instOut, target |-> b.target, inp |-> b.inp, instIn |-> b.instIn,
                  params |-> IF b.params # <<>> THEN b.params ELSE a.params,
                  times |-> IF b.times < 0 THEN a.times ELSE IF a.times < 0 THEN b.times
                            ELSE IF a.times < b.times THEN a.times ELSE b.times,
                  comma |-> a.comma /\ b.comma]
=============================================================================
