SPECIFICATION Spec
CONSTANTS
  Machine = "image"
  Fmt = "none"
  Small = TRUE
  MaxOps = 4
INVARIANT SavedSorted
INVARIANT SavedComplete
INVARIANT SummaryConsistent
INVARIANT V3Lossless
VIEW View

CHECK_DEADLOCK FALSE
