SPECIFICATION Spec
CONSTANTS
  W = {"w1"}
  MaxBody = 3
  Faults = 1
  Stale = {1, 2}
  NNames = 4
  AnyName = FALSE
  DirMissing = TRUE
  AnySplit = FALSE
  KeepHist = TRUE
  Reusers = {}
  MaxRounds = 1
  MinBody = 0
INVARIANT DestOldOrNew
INVARIANT FailedIsClean
INVARIANT DoneIsNew
INVARIANT TempsDisjoint
ACTION_CONSTRAINT EmitPath
CHECK_DEADLOCK FALSE
