------------------------------ MODULE KvTreeOps ------------------------------
(* The Keyvalues tree as a value-level data structure and its mutators         *)
(* (srctools.keyvalues.Keyvalues).  Growth beyond the listed properties: the   *)
(* operators say what every mutator does to the child list of a block; the     *)
(* C09-relevant laws (copying operators leave their operands unchanged and the *)
(* result independent) are invariants of KvTree.                               *)
(* A node is [n, blk, v, kids]: leaf (blk = FALSE, value v) or block (kids).   *)
(* Where the code deviates from its documentation the code's behaviour is      *)
(* modelled and the deviation is noted.                                        *)
EXTENDS Integers, Sequences, FiniteSets

Fold(s) == CASE s = "A" -> "a" [] s = "B" -> "b" [] OTHER -> s

Leaf(n, v) == [n |-> n, blk |-> FALSE, v |-> v, kids |-> <<>>]
Block(n, k) == [n |-> n, blk |-> TRUE, v |-> "", kids |-> k]

\* position of the LAST child with this (folded) name, 0 if none
FindIdx(k, name) ==
    LET hits == {i \in 1..Len(k) : Fold(k[i].n) = Fold(name)}
    IN IF hits = {} THEN 0 ELSE CHOOSE i \in hits : \A j \in hits : j <= i
\* position of the FIRST child equal to node x - list.remove() semantics.  Keyvalues.__eq__
\* IGNORES NAMES (it compares values only, recursively), so this can be a child with a
\* different name: `del kv["b"]` on [a=1, b=1] removes a=1.  Documented deviation of the code
\* (outside the listed properties); modelled as coded.
RECURSIVE EqNode(_, _)
EqNode(x, y) == /\ x.blk = y.blk
                /\ IF x.blk THEN /\ Len(x.kids) = Len(y.kids)
                                 /\ \A j \in 1..Len(x.kids) : EqNode(x.kids[j], y.kids[j])
                   ELSE x.v = y.v
FirstEq(k, x) == CHOOSE i \in 1..Len(k) : EqNode(k[i], x) /\ \A j \in 1..(i - 1) : ~EqNode(k[j], x)
RemoveAt(k, i) == [j \in 1..(Len(k) - 1) |-> IF j < i THEN k[j] ELSE k[j + 1]]

\* kv[name] -> value of the last LEAF with that name ("none" if there is none)
GetStr(k, name) ==
    LET hits == {i \in 1..Len(k) : Fold(k[i].n) = Fold(name) /\ ~k[i].blk}
    IN IF hits = {} THEN "none" ELSE k[CHOOSE i \in hits : \A j \in hits : j <= i].v
Contains(k, name) == FindIdx(k, name) # 0
\* find_all(name): every child with that name, in order (as a list of positions)
FindAll(k, name) == SelectSeq([i \in 1..Len(k) |-> i], LAMBDA i : Fold(k[i].n) = Fold(name))
\* find_key(name): position of the last child with that name (0: NoKeyError / default)
\* find_block(name): position of the last BLOCK child with that name (0: NoKeyError)
FindBlockIdx(k, name) ==
    LET hits == {i \in 1..Len(k) : Fold(k[i].n) = Fold(name) /\ k[i].blk}
    IN IF hits = {} THEN 0 ELSE CHOOSE i \in hits : \A j \in hits : j <= i
\* set_key((a, b), v) as coded: the block for the first path element is searched for among the
\* ROOT's children by FOLDED comparison of the given name ... with the stored FOLDED name, last
\* block wins, else a new empty block is appended; then the last element is set inside it like
\* SetStr.  (For deeper paths the code keeps searching the ROOT's children at every level, a
\* deviation from the docstring outside the listed properties; only depth 2 is modelled.)
SetPath2(k, a, b, val) ==
    LET i == FindBlockIdx(k, a)
    IN IF i = 0 THEN Append(k, Block(a, <<Leaf(b, val)>>))
       ELSE [k EXCEPT ![i] = Block(k[i].n, IF FindIdx(k[i].kids, b) = 0
                                           THEN Append(k[i].kids, Leaf(b, val))
                                           ELSE [k[i].kids EXCEPT ![FindIdx(k[i].kids, b)] = Leaf(@.n, val)])]

\* kv[name] = value: the last child with that name becomes a leaf holding value (keeping its
\* original spelling), otherwise a new leaf is appended
SetStr(k, name, val) ==
    LET i == FindIdx(k, name)
    IN IF i = 0 THEN Append(k, Leaf(name, val))
       ELSE [k EXCEPT ![i] = Leaf(k[i].n, val)]
\* del kv[name]: documented as "delete the last Keyvalue with that name"; the code removes the
\* first child EQUAL (names ignored!) to the last one with that name (list.remove).
DelStr(k, name) ==
    LET i == FindIdx(k, name)
    IN IF i = 0 THEN k ELSE RemoveAt(k, FirstEq(k, k[i]))
\* extend / += / + : append copies of every child of the other block
Extend(k, other) == k \o other
\* ensure_exists(name): the existing last child of that name, else a new empty block appended
Ensure(k, name) == IF FindIdx(k, name) # 0 THEN k ELSE Append(k, Block(name, <<>>))
\* merge_children(name): all BLOCK children with that name are merged into one block that is
\* placed at the end (only if it has children); leaves and other names keep their order
SelectNot(k, name) == SelectSeq(k, LAMBDA x : ~(x.blk /\ Fold(x.n) = Fold(name)))
RECURSIVE ConcatKids(_, _)
ConcatKids(k, name) ==
    IF k = <<>> THEN <<>>
    ELSE (IF Head(k).blk /\ Fold(Head(k).n) = Fold(name) THEN Head(k).kids ELSE <<>>)
         \o ConcatKids(Tail(k), name)
Merge(k, name) ==
    LET m == ConcatKids(k, name)
    IN IF m = <<>> THEN SelectNot(k, name) ELSE Append(SelectNot(k, name), Block(Fold(name), m))
=============================================================================
