------------------------------ MODULE RotTrace ------------------------------
(* Validates records logged from the real srctools.math against RotOps.        *)
(* Every record is self-contained (exact operands as rationals n/d, the        *)
(* implementation's results rounded to the record's common denominator Q, the  *)
(* rounding error e in units of 1e-12), so each is judged on its own.          *)
(* Every failing clause is printed as one MISMATCH line; nothing is fatal.     *)
EXTENDS RotOps, TLC, Json, IOUtils

Recs == ndJsonDeserialize(IOEnv.TRACE_FILE)
N == Len(Recs)
VARIABLE i

Val(j) == Q(j.n, j.d)
PtIn(q) == [c |-> q[1], s |-> q[2], d |-> q[3]]
AngIn(q) == Ang(PtIn(q[1]), PtIn(q[2]), PtIn(q[3]))
\* an operand is either an exact rational tuple, or a rotation named by its exact Euler triple
Opnd(j) == IF j.t = "ang" THEN FromAngle(AngIn(j.a)) ELSE Val(j)
\* an angle's three points at denominator q, as the driver logs them: <<<<c, s>>, <<c, s>>, <<c, s>>>>
PtFits(p, q) == q % p.d = 0
PtOut(p, q) == <<p.c * (q \div p.d), p.s * (q \div p.d)>>
AngFits(a, q) == PtFits(a.p, q) /\ PtFits(a.y, q) /\ PtFits(a.r, q)
AngOut(a, q) == <<PtOut(a.p, q), PtOut(a.y, q), PtOut(a.r, q)>>

F(c, e) == [clause |-> c, exp |-> e]
If(b, c, e) == IF b THEN {F(c, e)} ELSE {}
Tol(r) == If(r.e > r.tol, "tolerance", r.tol)
TolPt(r) == If(r.ep > r.tol, "tolerance.angle", r.tol)

\* ---- one operator application: l OP r
StepFails(r) ==
    LET q == r.Q
        l == Opnd(r.l) rr == Opnd(r.r)
        d == Dispatch(r.lcls, r.form, r.rcls)
    IN
    IF ~Fits(l, q) \/ ~Fits(rr, q) THEN {F("domain", q)}
    ELSE IF d.err \/ r.exc THEN If(d.err # r.exc, "dispatch.error", d.err)
            \cup If(r.exc /\ r.et # "TypeError", "dispatch.exctype", "TypeError")
            \cup If(r.la # Scale(l, q), "operand.lhs", Scale(l, q))
            \cup If(r.ra # Scale(rr, q), "operand.rhs", Scale(rr, q))
    ELSE
    LET v == EvalRot(Kind(r.lcls), l, rr)
        a == IF Kind(r.lcls) = "A" THEN ToAngle(v) ELSE NoAng
    IN
    IF ~Fits(v, q) THEN {F("domain", v.d)}
    ELSE If(r.res.cls # d.cls, "dispatch.class", d.cls)
         \cup If(r.res.is_lhs # (d.ident = "lhs") \/ (r.res.is_rhs /\ ~(r.self /\ d.ident = "lhs")), "dispatch.identity", d.ident)
         \cup If(r.la # (IF d.mut = "lhs" THEN Scale(v, q) ELSE Scale(l, q)), "operand.lhs",
                 IF d.mut = "lhs" THEN Scale(v, q) ELSE Scale(l, q))
         \* the right operand is never changed - unless it is the left operand of an in-place form itself
         \cup If(r.ra # (IF r.self /\ d.mut = "lhs" THEN Scale(v, q) ELSE Scale(rr, q)), "operand.rhs",
                 IF r.self /\ d.mut = "lhs" THEN Scale(v, q) ELSE Scale(rr, q))
         \cup If(r.res.n # Scale(v, q), "value", Scale(v, q))
         \cup (IF a.ok /\ AngFits(a.ang, q) THEN If(r.res.pt # AngOut(a.ang, q), "value.angle", AngOut(a.ang, q)) \cup TolPt(r) ELSE {})
         \cup Tol(r)

\* ---- Matrix.from_angle / from_pitch / from_yaw / from_roll / from_angstr on exact angles
FaFails(r) ==
    LET m == CASE r.how = "pitch" -> PitchM(PtIn(r.a[1]))
               [] r.how = "yaw" -> YawM(PtIn(r.a[2]))
               [] r.how = "roll" -> RollM(PtIn(r.a[3]))
               [] OTHER -> FromAngle(AngIn(r.a))
    IN IF ~Fits(m, r.Q) THEN {F("domain", m.d)}
       ELSE If(r.out # Scale(m, r.Q), "from_angle", Scale(m, r.Q)) \cup Tol(r)

\* ---- to_angle on an exact rotation matrix: the angle (when exact) and its matrix
TaFails(r) ==
    LET m == Opnd(r.m) a == ToAngle(m) IN
    IF ~Fits(m, r.Q) THEN {F("domain", m.d)}
    ELSE If(r.outm # Scale(m, r.Q), "to_angle.roundtrip", Scale(m, r.Q))
         \cup (IF a.ok /\ AngFits(a.ang, r.Q) THEN If(r.out # AngOut(a.ang, r.Q), "to_angle.angle", AngOut(a.ang, r.Q)) \cup TolPt(r) ELSE {})
         \cup Tol(r)

\* ---- transpose() and inverse() of an exact rotation matrix
InvFails(r) ==
    LET m == Opnd(r.m) t == Transpose(m) IN
    IF ~Fits(m, r.Q) THEN {F("domain", m.d)}
    ELSE If(r.tr # Scale(t, r.Q), "transpose", Scale(t, r.Q))
         \cup If(r.inv # Scale(t, r.Q), "inverse", Scale(t, r.Q))
         \cup Tol(r)

\* ---- result of a whole TLC-generated expression against TLC's own expected value
FinalFails(r) ==
    LET x == r.exp q == r.Q IN
    IF x.k = "E" THEN If(~r.exc, "final.error", TRUE)
    ELSE IF r.exc THEN {F("final.error", FALSE)}
    ELSE IF ~Fits(Val(x.m), q) THEN {F("domain", x.m.d)}
    ELSE If(r.res.cls # x.cls, "final.class", x.cls)
         \cup If(r.res.n # Scale(Val(x.m), q), "final.value", Scale(Val(x.m), q))
         \cup (IF x.k = "A" /\ x.pt.ok /\ AngFits(x.pt.ang, q)
               THEN If(r.res.pt # AngOut(x.pt.ang, q), "final.angle", AngOut(x.pt.ang, q)) \cup TolPt(r) ELSE {})
         \cup Tol(r)

\* ---- numeric residue of a law evaluated by the harness on the continuum (units of 1e-12)
NumFails(r) == If(r.resid > r.tol, "num." \o r.law, r.tol)

\* ---- coverage handshake: the driver claims to have enumerated all triples over PtsOf(1) \cup PtsOf(D)
CountFails(r) ==
    LET want == Cardinality(PtsOf(1) \cup PtsOf(r.D))
        seen == {Recs[j].a : j \in {jj \in 1..N : Recs[jj].k = "fa" /\ Recs[jj].how = r.how}}
    IN If(Cardinality(seen) # want * want * want, "count", want * want * want)

Fails(r) == CASE r.k = "step" -> StepFails(r)
              [] r.k = "fa" -> FaFails(r)
              [] r.k = "ta" -> TaFails(r)
              [] r.k = "inv" -> InvFails(r)
              [] r.k = "final" -> FinalFails(r)
              [] r.k = "num" -> NumFails(r)
              [] r.k = "count" -> CountFails(r)

Init == i = 0
Next == i < N /\ i' = i + 1
Checked == i = 0 \/ \A f \in Fails(Recs[i]) :
              PrintT(ToJson([tag |-> "MISMATCH", i |-> i, clause |-> f.clause, exp |-> f.exp]))
AllConsumed == TLCGet("stats").diameter = N + 1
=============================================================================
