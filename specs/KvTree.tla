--------------------------------- MODULE KvTree ---------------------------------
(* State machine over two root blocks x and y (child lists), every public      *)
(* mutator of Keyvalues one action.  Binary operators take y as the operand.   *)
EXTENDS KvTreeOps, TLC, Json

CONSTANTS Names, Vals, MaxKids, SetPathKids

VARIABLES x, y, act
vars == <<x, y>>

Nodes == {Leaf(n, v) : n \in Names, v \in Vals} \cup {Block(n, <<>>) : n \in Names}
             \cup {Block(n, <<Leaf("a", "1")>>) : n \in Names} \cup {Block(n, <<Leaf("b", "2")>>) : n \in Names}
YNodes == {Leaf("a", "2"), Block("A", <<Leaf("b", "1")>>)}

Init == x = <<>> /\ y = <<>> /\ act = [op |-> "init"]

Small(k) == Len(k) <= MaxKids

AppendX(nd) == /\ Small(Append(x, nd)) /\ x' = Append(x, nd) /\ UNCHANGED y
               /\ act' = [op |-> "append", t |-> "x", node |-> nd]
AppendY(nd) == /\ Len(y) < 1 /\ y' = Append(y, nd) /\ UNCHANGED x
               /\ act' = [op |-> "append", t |-> "y", node |-> nd]
SetX(n, v) == /\ Small(SetStr(x, n, v)) /\ x' = SetStr(x, n, v) /\ UNCHANGED y
              /\ act' = [op |-> "setstr", name |-> n, val |-> v]
DelX(n) == /\ Contains(x, n) /\ x' = DelStr(x, n) /\ UNCHANGED y
           /\ act' = [op |-> "delstr", name |-> n]
\* x.extend(y), x += y : x grows by copies, y unchanged
ExtendXY == /\ Small(Extend(x, y)) /\ x' = Extend(x, y) /\ UNCHANGED y
            /\ act' = [op |-> "extend"]
IAddXY == /\ Small(Extend(x, y)) /\ x' = Extend(x, y) /\ UNCHANGED y
          /\ act' = [op |-> "iadd"]
\* z = x + y : a NEW tree, both operands unchanged (the law C09 states); res = the new tree
AddXY == /\ Small(Extend(x, y)) /\ UNCHANGED <<x, y>>
         /\ act' = [op |-> "add", res |-> Extend(x, y)]
\* z = x.copy() then z mutated: x unchanged
CopyMutate(n, v) == /\ UNCHANGED <<x, y>>
                    /\ act' = [op |-> "copymut", name |-> n, val |-> v, res |-> SetStr(x, n, v)]
EnsureX(n) == /\ Small(Ensure(x, n)) /\ x' = Ensure(x, n) /\ UNCHANGED y
              /\ act' = [op |-> "ensure", name |-> n]
MergeX(n) == /\ \A i \in 1..Len(Merge(x, n)) : Len(Merge(x, n)[i].kids) <= 2
             /\ x' = Merge(x, n) /\ UNCHANGED y
             /\ act' = [op |-> "merge", name |-> n]
ClearX == /\ x # <<>> /\ x' = <<>> /\ UNCHANGED y /\ act' = [op |-> "clear"]
\* lookups change nothing; res is what they must return
LookupX(n) == /\ UNCHANGED <<x, y>>
              /\ act' = [op |-> "lookup", name |-> n,
                          res |-> [get |-> GetStr(x, n), has |-> Contains(x, n), all |-> FindAll(x, n),
                                   key |-> FindIdx(x, n), block |-> FindBlockIdx(x, n)]]
SetPathX(a, b, v) == /\ Small(SetPath2(x, a, b, v)) /\ \A i \in 1..Len(SetPath2(x, a, b, v)) : Len(SetPath2(x, a, b, v)[i].kids) <= SetPathKids
                     /\ x' = SetPath2(x, a, b, v) /\ UNCHANGED y
                     /\ act' = [op |-> "setpath", a |-> a, b |-> b, val |-> v]

Next == \/ \E nd \in Nodes : AppendX(nd)
        \/ \E nd \in YNodes : AppendY(nd)
        \/ \E n \in Names, v \in Vals : SetX(n, v) \/ CopyMutate(n, v)
        \/ \E a \in Names, b \in Names, v \in Vals : SetPathX(a, b, v)
        \/ \E n \in Names : DelX(n) \/ EnsureX(n) \/ MergeX(n) \/ LookupX(n)
        \/ ExtendXY \/ IAddXY \/ AddXY \/ ClearX

Spec == Init /\ [][Next]_vars

(* invariants of the value model *)
\* after SetStr the lookup returns the value (checked on every state via all names)
SetGet == \A n \in Names, v \in Vals : GetStr(SetStr(x, n, v), n) = v
DelShrinks == \A n \in Names : Contains(x, n) => Len(DelStr(x, n)) = Len(x) - 1
MergeOne == \A n \in Names :
    Cardinality({i \in 1..Len(Merge(x, n)) : Merge(x, n)[i].blk /\ Fold(Merge(x, n)[i].n) = Fold(n)}) <= 1
EnsureHas == \A n \in Names : Contains(Ensure(x, n), n)

View == vars
Emit == PrintT(ToJson([tag |-> "EDGE", s |-> [x |-> x, y |-> y], a |-> act', t |-> [x |-> x', y |-> y']]))
=============================================================================
