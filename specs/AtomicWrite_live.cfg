SPECIFICATION FairSpec
CONSTANTS
  W = {"w1", "w2"}
  MaxBody = 0
  Faults = 1
  Stale = {1}
  DirMissing = FALSE
  AnySplit = TRUE
  KeepHist = FALSE
INVARIANT DestOldOrNew
INVARIANT FailedIsClean
INVARIANT DoneIsNew
INVARIANT TempsDisjoint
PROPERTY Termination
PROPERTY Settled
CHECK_DEADLOCK FALSE
