SPECIFICATION FairSpec
CONSTANTS
  W = {"w1", "w2"}
  MaxBody = 0
  Faults = 1
  Stale = {1}
  NNames = 4
  AnyName = FALSE
  DirMissing = FALSE
  AnySplit = TRUE
  KeepHist = FALSE
  Reusers = {}
  MaxRounds = 1
  MinBody = 0
INVARIANT DestOldOrNew
INVARIANT FailedIsClean
INVARIANT DoneIsNew
INVARIANT TempsDisjoint
PROPERTY Termination
CHECK_DEADLOCK FALSE
