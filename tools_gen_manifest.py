#!/usr/bin/env python3
"""Regenerates MANIFEST.json from the table below (kept next to the checks so they stay in step)."""
import json
from pathlib import Path

HERE = Path(__file__).resolve().parent
ALL = [f'C{i:02}' for i in range(1, 21)]

import importlib, sys
sys.path.insert(0, str(HERE))
# properties whose checks have been accepted (tools/accept.sh green for seeds 0,1,2)
READY = (HERE / 'READY').read_text().split()
CHECKS = {}
for pid in ALL:
    if pid in READY and (HERE / 'props' / f'{pid.lower()}.py').exists():
        mod = importlib.import_module('props.' + pid.lower())
        if getattr(mod, 'MANIFEST', None):
            CHECKS[pid] = mod.MANIFEST

NOT_YET = 'check not built yet in this round (planned, see DESIGN.md section 8)'


def main() -> None:
    checks = []
    for pid in ALL:
        if pid not in CHECKS:
            continue
        c = CHECKS[pid]
        checks.append({
            'property_id': pid,
            'quick_cmd': f'./check {pid} --tier quick',
            'thorough_cmd': f'./check {pid} --tier thorough',
            'evidence_file': f'/verif/evidence/{pid}.json',
            'replay_cmd_template': f'./check {pid} --replay {{path}}',
            'engine': 'tlc',
            'level_claimed': {'category': c['category'], 'text': c['text'], 'design_ref': c['design_ref']},
            'level_note': c['note'],
            'technique': c['technique'],
        })
    manifest = {
        'version': 1,
        'setup_cmd': './setup.sh',
        'hooks': {
            'guard': 'SRCTOOLS_VERIF',
            'enable': 'no source hooks: harness processes wrap callables from outside (PYTHONPATH=/verif/shim:/repo/src); SRCTOOLS_VERIF=1 is set for them but the library never reads it',
            'baseline_off_cmd': 'cd /repo && /venv/bin/python -m pytest -ra -q -p no:cacheprovider --timeout=900 --continue-on-collection-errors',
            'source_commits': [],
            'add_only': True,
        },
        'engines': [{
            'name': 'tlc', 'path': '/verif/specs',
            'serves_properties': sorted(CHECKS),
            'kind_free_text': 'explicit TLA+ specifications checked with TLC 1.8; conformance by replaying TLC-enumerated transitions into the Python implementation and by TLC validating NDJSON records logged from it',
        }],
        'checks': checks,
        'not_applicable': [{'property_id': p, 'reason': NA.get(p, NOT_YET)} for p in ALL if p not in CHECKS],
        'notes': 'The repository test suite imports an installed srctools 2.7.0 from site-packages, not /repo/src; all checks import /repo/src (pure Python; the Cython accelerators cannot be built offline). See DESIGN.md section 1.',
    }
    (HERE / 'MANIFEST.json').write_text(json.dumps(manifest, indent=1) + '\n')


NA: dict = {}

if __name__ == '__main__':
    main()
