"""Shim: /repo/src imports the `importlib_resources` backport, which is not installed here.
The stdlib module has the same API on Python 3.12."""
from importlib.resources import *  # noqa: F401,F403
from importlib.resources import files, as_file  # noqa: F401
