"""Orchestration shared by all property checks: drivers, TLC validation of records,
known findings, evidence, verdict lines."""
from __future__ import annotations

import concurrent.futures as cf
import json
import os
import shutil
import subprocess
import sys
import tempfile
import time
from pathlib import Path

from .tlc import MachineryError, TlcResult, run_tlc

VERIF = Path(__file__).resolve().parent.parent
PY = '/venv/bin/python'
REPO_SRC = os.environ.get('VERIF_SRC', '/repo/src')


def repo_env(extra: dict | None = None) -> dict:
    env = dict(os.environ)
    env.update({
        'PYTHONPATH': f'{VERIF}/shim:{REPO_SRC}:{VERIF}',
        'PYTHONDONTWRITEBYTECODE': '1',
        'PYTHONHASHSEED': '0',
        'SRCTOOLS_VERIF': '1',
    })
    if extra:
        env.update({k: str(v) for k, v in extra.items()})
    return env


def run_driver(script: str, args: list[str], *, timeout: float = 3600, env: dict | None = None) -> str:
    """Run harness/<script> against /repo/src. Raises MachineryError on any non-zero exit."""
    cmd = [PY, str(VERIF / 'harness' / script)] + [str(a) for a in args]
    try:
        proc = subprocess.run(cmd, cwd='/', env=repo_env(env), capture_output=True, text=True, timeout=timeout)
    except subprocess.TimeoutExpired as exc:
        raise MachineryError(f'driver {script} timed out') from exc
    if proc.returncode != 0:
        raise MachineryError(f'driver {script} failed rc={proc.returncode}:\n{proc.stdout[-2000:]}\n{proc.stderr[-4000:]}')
    return proc.stdout


class Work:
    """Scratch directory removed at exit (nothing is kept under /tmp between runs)."""
    def __init__(self) -> None:
        self.dir = Path(tempfile.mkdtemp(prefix='verif_'))

    def path(self, name: str) -> Path:
        return self.dir / name

    def cleanup(self) -> None:
        shutil.rmtree(self.dir, ignore_errors=True)


def read_ndjson(path) -> list:
    out = []
    with open(path, encoding='utf-8') as f:
        for line in f:
            if line.strip():
                out.append(json.loads(line))
    return out


def validate_records(module: str, cfg: str, rec_path, *, shards: int = 16, work: Work,
                     timeout: float = 1800, heap: str = '3g') -> tuple[list, dict]:
    """Validate an NDJSON record file with TLC (module reads IOEnv.TRACE_FILE).

    Returns (mismatches, stats). A mismatch is (record, clause, expected) with the record's
    position in the file. TLC decides; Python only shards and collects."""
    with open(rec_path, encoding='utf-8') as f:
        lines = [ln for ln in f if ln.strip()]
    total = len(lines)
    if total == 0:
        raise MachineryError(f'no records to validate in {rec_path}')
    shards = max(1, min(shards, (total + 199) // 200))
    per = (total + shards - 1) // shards
    jobs = []
    for s in range(shards):
        chunk = lines[s * per:(s + 1) * per]
        if not chunk:
            continue
        p = work.path(f'{Path(rec_path).stem}.shard{s}.ndjson')
        p.write_text(''.join(chunk), encoding='utf-8')
        jobs.append((s * per, p, len(chunk)))

    def one(job):
        base, p, n = job
        res = run_tlc(module, cfg, workers=1, env={'TRACE_FILE': str(p)}, timeout=timeout, heap=heap)
        return base, n, res

    mismatches = []
    stats = {'states': 0, 'transitions': 0, 'records': total, 'tlc_runs': 0, 'wall_s': 0.0}
    with cf.ThreadPoolExecutor(max_workers=min(16, len(jobs))) as ex:
        for base, n, res in ex.map(one, jobs):
            stats['states'] += res.distinct
            stats['transitions'] += res.generated
            stats['tlc_runs'] += 1
            stats['wall_s'] = max(stats['wall_s'], res.wall_s)
            if not res.ok:
                raise MachineryError(f'record validation did not consume all records ({module}): {res.errors}\n{res.raw[-3000:]}')
            if res.distinct != n + 1:
                raise MachineryError(f'{module}: expected {n + 1} states, TLC found {res.distinct}')
            for pr in res.prints:
                if isinstance(pr, dict) and pr.get('tag') == 'MISMATCH':
                    idx = base + pr['i'] - 1
                    mismatches.append({'index': idx, 'rec': json.loads(lines[idx]),
                                       'clause': pr.get('clause'), 'exp': pr.get('exp')})
    mismatches.sort(key=lambda m: m['index'])
    return mismatches, stats


# ---------------------------------------------------------------- known findings
def load_findings(prop: str) -> list:
    path = VERIF / 'known_findings' / f'{prop}.json'
    if not path.exists():
        return []
    data = json.loads(path.read_text())
    return [f for f in data['findings'] if f['property'] == prop and f['status'] == 'open']


def _match(entry: dict, sig: dict) -> bool:
    for k, want in entry['match'].items():
        got = sig.get(k, None)
        if isinstance(want, list):
            if got not in want:
                return False
        elif got != want:
            return False
    return True


# Mismatches of a growth specification in behaviour the host property does not speak about: the
# code differs from what the specification says, but no listed property is violated.  They are
# reported as SPEC-DRIFT lines and in the evidence, and never change the exit code.
DRIFT: list = []


def classify(prop: str, sigs: list[dict]) -> tuple[dict, list]:
    """Split mismatch signatures into known findings (by entry id) and new violations."""
    entries = load_findings(prop)
    known: dict[str, list] = {}
    new = []
    for sig in sigs:
        if sig.get('drift'):
            DRIFT.append(sig)
            continue
        for e in entries:
            if _match(e, sig):
                known.setdefault(e['id'], []).append(sig)
                break
        else:
            new.append(sig)
    return known, new


# ---------------------------------------------------------------- verdict + evidence
def finish(prop: str, *, tier: str, seed: int, t0: float, coverage: dict, assumptions: list,
           known: dict, new: list, level: str = 'model_checking') -> int:
    """Write evidence, print KNOWN-FINDING / VIOLATION lines, return the exit code."""
    ev_dir = Path(os.environ.get('VERIF_EVIDENCE_DIR') or VERIF / 'evidence')
    rp_dir = Path(os.environ.get('VERIF_REPLAY_DIR') or VERIF / 'replays')
    ev_dir.mkdir(exist_ok=True, parents=True)
    rp_dir.mkdir(exist_ok=True, parents=True)
    entries = {e['id']: e for e in load_findings(prop)}
    for fid, sigs in sorted(known.items()):
        print(f'KNOWN-FINDING: property={prop} {fid}: {entries[fid]["description"]} ({len(sigs)} occurrence(s) this run)')
    drift_groups: dict = {}
    for sig in DRIFT:
        gk = f"spec={sig['drift']} " + ' '.join(f'{k}={sig.get(k)}' for k in ('kind', 'action', 'clause') if k in sig)
        drift_groups[gk] = drift_groups.get(gk, 0) + 1
    for gk, n in sorted(drift_groups.items()):
        print(f'SPEC-DRIFT: {gk} x{n} (the code differs from a growth specification in behaviour outside '
              f'the statement of {prop}; not a violation)')
    coverage['spec_drift'] = drift_groups
    rc = 0
    replay_paths = []
    groups: dict = {}
    for sig in new:
        gk = ' '.join(f'{k}={sig.get(k)}' for k in ('kind', 'action', 'clause') if k in sig)
        groups[gk] = groups.get(gk, 0) + 1
    for gk, n in sorted(groups.items()):
        print(f'  new mismatch group: {gk} x{n}', file=sys.stderr)
    # one replay file per distinct (clause, action) pair, at most 5
    seen = set()
    for sig in new:
        key = json.dumps({k: sig.get(k) for k in ('clause', 'action', 'kind')}, sort_keys=True)
        if key in seen or len(seen) >= 5:
            continue
        seen.add(key)
        p = rp_dir / f'{prop}_{len(seen)}.json'
        p.write_text(json.dumps(sig, indent=1, sort_keys=True, default=str))
        replay_paths.append(p)
        print(f'VIOLATION property={prop} replay={p}')
        rc = 1
    coverage = dict(coverage)
    coverage['known_finding_occurrences'] = {k: len(v) for k, v in known.items()}
    ev = {
        'property_id': prop, 'tier': tier, 'seed': seed, 'level': level,
        'coverage': coverage, 'assumptions': assumptions,
        'wall_s': round(time.time() - t0, 2), 'violations': len(new),
    }
    (ev_dir / f'{prop}.json').write_text(json.dumps(ev, indent=1, default=str))
    if rc == 0:
        print(f'OK property={prop} tier={tier} seed={seed} wall_s={ev["wall_s"]}')
    return rc


def dump_edges(module: str, cfg: str, *, timeout: float = 900) -> tuple[list, TlcResult]:
    """Run a cfg that has ACTION_CONSTRAINT Emit (PrintT(ToJson([tag |-> "EDGE", ...]))) with one
    worker and return every transition of the bounded model exactly once."""
    r = run_tlc(module, cfg, workers=1, timeout=timeout)
    require_mc(r, cfg)
    edges = [p for p in r.prints if isinstance(p, dict) and p.get('tag') == 'EDGE']
    if len(edges) != r.generated - 1:
        raise MachineryError(f'{cfg}: {len(edges)} edges printed for {r.generated} generated states')
    return edges, r


def require_mc(res: TlcResult, name: str) -> None:
    """A design-level invariant violation is a violation of the model itself: machinery error,
    because the specification is supposed to be the design in which the property holds."""
    if not res.ok:
        raise MachineryError(f'model {name}: TLC reports {res.errors}\n{res.raw[-3000:]}')
