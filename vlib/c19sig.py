"""Abstract parameters of C19 records (for matching known findings only - never a verdict).
Pure functions of what a record already contains; used by props/c19.py."""
from __future__ import annotations

BS = '\\'


def split_both(s: str) -> list:
    return [c for c in s.replace(BS, '/').split('/') if c not in ('', '.')]


def noncanon(text: str) -> bool:
    """Does the text contain '.' or empty segments other than one trailing separator?"""
    segs = text.replace(BS, '/').split('/')
    return any(c in ('', '.') for c in segs[:-1]) or segs[-1] == '.'


def spell_sig(toks: list, files: list) -> str:
    comps = [c for _, c in toks]
    exact = any(comps == list(f) for f, _ in files)
    parts = []
    if not exact and any([c.casefold() for c in comps] == [x.casefold() for x in f] for f, _ in files):
        parts.append('case')
    if any(s == BS for s, _ in toks):
        parts.append('backslash')
    return '+'.join(parts) or 'plain'


def walk_flags(backend: str, arg: str, files: list) -> dict:
    """Abstract parameters of one walk_folder(arg) call on one backend (for known-finding
    signatures only; the verdict is TLC's)."""
    folder = split_both(arg)
    fkey = [c.casefold() for c in folder]
    text = '/'.join(folder)
    strprefix = casediff = folds = False
    for comps, _ in files:
        path = '/'.join(comps)
        inside = [c.casefold() for c in comps[:-1]][:len(fkey)] == fkey
        if not inside and path.casefold().startswith(text.casefold()):
            strprefix = True      # the text of the folder is a prefix of the text of a file outside it
        if inside and list(comps[:len(folder)]) != folder:
            casediff = True       # a file inside is stored with another spelling of the folder than asked
        if inside and [c.casefold() for c in comps[:len(folder)]] != list(comps[:len(folder)]):
            folds = True          # a file inside is stored with a folder spelling that is not its case-folded form
    return {'backend': backend, 'folder': 'empty' if arg == '' else 'named', 'trail': arg.endswith(('/', BS)),
            'strprefix': strprefix, 'casediff': casediff, 'folds': folds, 'backslash': BS in arg,
            'noncanon': noncanon(arg)}




def chain_walk_flags(rec: dict, walk: dict) -> dict:
    """Did some member list a file whose leading folders spell the member's prefix in another case?"""
    pfxcase = False
    for call in walk['calls']:
        pfx = rec['members'][call['m'] - 1]['pfx']
        for it in call['items']:
            head = it['n'][:len(pfx)]
            if head != pfx and [c.casefold() for c in head] == [c.casefold() for c in pfx]:
                pfxcase = True
    arg = ''.join(s + c for s, c in walk['toks'])
    pfxback = any(BS in m.get('pfxs', '') for m in rec['members'])
    # a zip/VPK member whose prefix spelling makes the chain hand it texts with '.' or empty segments
    import posixpath
    oddpfx = any(m['backend'] in ('zip', 'vpk') and noncanon(posixpath.join(m.get('pfxs', ''), 'x').replace(BS, '/'))
                 for m in rec['members'])
    return {'backend': 'chain', 'folder': 'empty' if arg == '' else 'named', 'pfxcase': pfxcase, 'pfxback': pfxback,
            'oddpfx': oddpfx}
