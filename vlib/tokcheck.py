"""Check-side helpers shared by props/c02.py and props/c03.py.

validate_records is core.validate_records with a larger Java thread stack: the lexer of
TokenizerOps is a recursive operator that takes one level per character delivered, and TLC's
default 1 MB worker stack ends at about 200 characters."""
from __future__ import annotations

import concurrent.futures as cf
import json
from pathlib import Path

from .core import Work
from .tlc import MachineryError, run_tlc

JAVA_OPTS = '-Xss256m'


def validate_records(module: str, cfg: str, rec_path, *, shards: int = 16, work: Work,
                     timeout: float = 1800, heap: str = '3g', per_shard_min: int = 200) -> tuple[list, dict]:
    with open(rec_path, encoding='utf-8') as f:
        lines = [ln for ln in f if ln.strip()]
    total = len(lines)
    if total == 0:
        raise MachineryError(f'no records to validate in {rec_path}')
    shards = max(1, min(shards, (total + per_shard_min - 1) // per_shard_min))
    per = (total + shards - 1) // shards
    jobs = []
    for s in range(shards):
        chunk = lines[s * per:(s + 1) * per]
        if not chunk:
            continue
        p = work.path(f'{Path(rec_path).stem}.shard{s}.ndjson')
        p.write_text(''.join(chunk), encoding='utf-8')
        jobs.append((s * per, p, len(chunk)))

    def one(job):
        base, p, n = job
        res = run_tlc(module, cfg, workers=1, env={'TRACE_FILE': str(p), 'JAVA_TOOL_OPTIONS': JAVA_OPTS},
                      timeout=timeout, heap=heap)
        return base, n, res

    mismatches = []
    stats = {'states': 0, 'transitions': 0, 'records': total, 'tlc_runs': 0, 'wall_s': 0.0}
    with cf.ThreadPoolExecutor(max_workers=min(16, len(jobs))) as ex:
        for base, n, res in ex.map(one, jobs):
            stats['states'] += res.distinct
            stats['transitions'] += res.generated
            stats['tlc_runs'] += 1
            stats['wall_s'] = max(stats['wall_s'], res.wall_s)
            if not res.ok:
                raise MachineryError(f'record validation did not consume all records ({module}): {res.errors}\n{res.raw[-3000:]}')
            if res.distinct != n + 1:
                raise MachineryError(f'{module}: expected {n + 1} states, TLC found {res.distinct}')
            for pr in res.prints:
                if isinstance(pr, dict) and pr.get('tag') == 'MISMATCH':
                    idx = base + pr['i'] - 1
                    mismatches.append({'index': idx, 'rec': json.loads(lines[idx]),
                                       'clause': pr.get('clause'), 'exp': pr.get('exp')})
    mismatches.sort(key=lambda m: m['index'])
    return mismatches, stats
