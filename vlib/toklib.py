"""Shared by the C02/C03 drivers: run the real (pure Python) srctools tokenizer and project what a
caller observes into the vocabulary of specs/TokenizerOps.tla.  No verdicts are produced here."""
from __future__ import annotations


OPT_NAMES = ('sb', 'sp', 'esc', 'star', 'keep', 'colon', 'plus')
OPT_KW = {
    'sb': 'string_bracket', 'sp': 'string_parens', 'esc': 'allow_escapes', 'star': 'allow_star_comments',
    'keep': 'preserve_comments', 'colon': 'colon_operator', 'plus': 'plus_operator',
}
TOK_DEFAULTS = {'sb': False, 'sp': True, 'esc': True, 'star': False, 'keep': False, 'colon': False, 'plus': False}
KV_OPTS = dict(TOK_DEFAULTS, sb=True)
AllTrueOpts = {n: True for n in OPT_NAMES}
TRIGGERS = {'sb': '[]', 'sp': '()', 'esc': '\\', 'star': '/', 'keep': '/', 'colon': ':', 'plus': '+'}

NO_ERR = {'id': 'none', 'arg': 0, 'l': 0}


def cps(s: str) -> list:
    return [ord(c) for c in s]


def uncps(q) -> str:
    return ''.join(chr(c) for c in q)


def opts_from_bits(bits: int) -> dict:
    return {n: bool(bits >> i & 1) for i, n in enumerate(OPT_NAMES)}


def opts_kwargs(o: dict) -> dict:
    return {OPT_KW[n]: o[n] for n in OPT_NAMES}


def relevant(text: str) -> list:
    return [n for n in OPT_NAMES if any(c in text for c in TRIGGERS[n])]


def fold_table(text: str) -> list:
    """Case folding of the non-ASCII characters in play (CPython's str.casefold, not srctools code)."""
    out = []
    for c in sorted(set(text)):
        if ord(c) > 127 and c.casefold() != c:
            out.append([ord(c), cps(c.casefold())])
    return out


def classify_error(exc, token_error_type) -> tuple:
    """-> (err record, exception type name, raw message).

    The record only says WHETHER this is the typed syntax error the tokenizer was told to raise
    (id "error": an instance of token_error_type, logged under that type's name) or something else
    (id "exception").  The wording of the message, the file and the line are kept as they are: they
    are compared between the delivery forms of one input, never with a specification string."""
    if not isinstance(exc, token_error_type):
        return {'id': 'exception', 'arg': 0, 'l': 0}, type(exc).__name__, repr(exc)[:200]
    line = exc.line_num if isinstance(exc.line_num, int) else -1
    return {'id': 'error', 'arg': 0, 'l': line}, token_error_type.__name__, f'{exc.mess}|file={exc.file!r}'


class Watchdog(Exception):
    """Raised inside the code under test when a single observation runs for WATCHDOG_S seconds
    (a livelock shows up as an observation with this exception type, which no specification accepts)."""


WATCHDOG_S = 5.0
_watchdog_hits = [0]


class StepLimit(Exception):
    """Raised inside Tokenizer._next_char when one tokenizer has asked for more characters than any
    linear bound allows (a livelock): logged as an observation, which no specification accepts."""


STEP_LIMIT = [1 << 60]
_installed = [False]


def install_step_counter() -> None:
    """Wrap Tokenizer._next_char from outside (in this process only): every tokenizer counts its
    cursor reads in _verif_calls and raises StepLimit beyond STEP_LIMIT[0]."""
    if _installed[0]:
        return
    from srctools.tokenizer import Tokenizer
    orig = Tokenizer._next_char

    def counted(self):
        n = self.__dict__.get('_verif_calls', 0) + 1
        self.__dict__['_verif_calls'] = n
        if n > STEP_LIMIT[0]:
            raise StepLimit(f'{n} cursor reads')
        return orig(self)

    Tokenizer._next_char = counted
    _installed[0] = True


def set_step_limit(nchars: int) -> None:
    STEP_LIMIT[0] = 4 * (nchars + 2) + 16


def _alarm(signum, frame):
    _watchdog_hits[0] += 1
    if _watchdog_hits[0] > 5:
        raise SystemExit('MACHINERY: more than 5 observations hit the watchdog')
    raise Watchdog(f'no result after {WATCHDOG_S} s')


def watchdog_on() -> None:
    import signal
    signal.signal(signal.SIGALRM, _alarm)
    signal.setitimer(signal.ITIMER_REAL, WATCHDOG_S)


def watchdog_off() -> None:
    import signal
    signal.setitimer(signal.ITIMER_REAL, 0)


def observe(tok, error_type, extra_eof: int = 2, limit: int = 1_000_000) -> dict:
    """Call the tokenizer until EOF (then extra_eof more times) or until it raises.
    n = cursor reads (_next_char calls) up to the first EOF token / the error."""
    toks = []
    err, etype, msg = NO_ERR, '', ''
    eofs = 0
    reads = None
    watchdog_on()
    try:
        while eofs <= extra_eof and len(toks) < limit:
            t, v = tok()
            toks.append({'t': t.name, 'v': cps(v), 'l': tok.line_num})
            if t.name == 'EOF':
                if not eofs:
                    reads = tok.__dict__.get('_verif_calls', 0)
                eofs += 1
            elif eofs:
                break   # something after EOF: logged as is, the specification rejects it
    except BaseException as exc:  # noqa: BLE001 - every exception type is an observation here
        if isinstance(exc, (KeyboardInterrupt, SystemExit)):
            raise
        err, etype, msg = classify_error(exc, error_type)
    finally:
        watchdog_off()
    if reads is None:
        reads = tok.__dict__.get('_verif_calls', 0)
    return {'toks': toks, 'err': err, 'etype': etype, 'msg': msg, 'n': reads}


def tokenize(data, o: dict, *, error_type=None, extra_eof: int = 2, nchars: int = 1 << 40) -> dict:
    from srctools.tokenizer import Tokenizer, TokenSyntaxError
    error_type = error_type or TokenSyntaxError
    install_step_counter()
    set_step_limit(nchars)
    tok = Tokenizer(data, None, error_type, **opts_kwargs(o))
    return observe(tok, error_type, extra_eof)


def outcome_key(out: dict) -> str:
    import json
    return json.dumps([out['toks'], out['err'], out['etype'], out['msg'], out.get('n')], separators=(',', ':'))
