"""Thin wrapper around TLC: run a spec, parse statistics, PrintT output and errors.

All verdict-producing logic lives in the TLA+ specifications; this module only launches TLC
and turns its output into Python data.
"""
from __future__ import annotations

import json
import os
import re
import shutil
import subprocess
import tempfile
import time
from dataclasses import dataclass, field
from pathlib import Path

VERIF = Path(__file__).resolve().parent.parent
SPECS = VERIF / 'specs'
JAR = '/opt/veriftools/tla/tla2tools.jar'
DEPS = '/opt/veriftools/tla/CommunityModules-deps.jar'


class MachineryError(Exception):
    """TLC crashed, timed out, or the spec itself is broken (exit 2, not a violation)."""


@dataclass
class TlcResult:
    ok: bool                      # no invariant/property/postcondition/assumption error
    generated: int = 0
    distinct: int = 0
    depth: int = 0
    wall_s: float = 0.0
    prints: list = field(default_factory=list)      # decoded PrintT(ToJson(..)) payloads
    errors: list = field(default_factory=list)      # 'Error: ...' lines
    violated: list = field(default_factory=list)    # names of violated invariants/properties
    coverage: dict = field(default_factory=dict)    # action name -> (distinct, total)
    raw: str = ''
    cmd: str = ''


_TLA_UNESC = re.compile(r'\\(.)')
_UNESC_MAP = {'n': '\n', 't': '\t', 'r': '\r', 'f': '\f', '"': '"', '\\': '\\'}


def _tla_unescape(s: str) -> str:
    return _TLA_UNESC.sub(lambda m: _UNESC_MAP.get(m.group(1), m.group(1)), s)


def run_tlc(
    module: str,
    cfg: str,
    *,
    workers: int | str = 16,
    env: dict | None = None,
    timeout: float = 900,
    simulate: str | None = None,
    depth: int | None = None,
    seed: int | None = None,
    coverage: bool = False,
    heap: str = '6g',
    dfs_queue: bool = False,
    extra: tuple = (),
    cwd: Path | None = None,
) -> TlcResult:
    """Run TLC on specs/<module>.tla with specs/<cfg>; raise MachineryError on crash/timeout."""
    cwd = cwd or SPECS
    metadir = tempfile.mkdtemp(prefix='tlcmeta_')
    java = ['java', '-XX:+UseParallelGC', f'-Xmx{heap}']
    if dfs_queue:
        java.append('-Dtlc2.tool.queue.IStateQueue=StateDeque')
    cmd = java + ['-cp', f'{JAR}:{DEPS}', 'tlc2.TLC',
                  '-workers', str(workers), '-metadir', metadir, '-noGenerateSpecTE',
                  '-config', cfg]
    if simulate is not None:
        cmd += ['-simulate', simulate]
    if depth is not None:
        cmd += ['-depth', str(depth)]
    if seed is not None:
        cmd += ['-seed', str(seed)]
    if coverage:
        cmd += ['-coverage', '1']
    cmd += list(extra) + [module]
    full_env = dict(os.environ)
    full_env.pop('JAVA_TOOL_OPTIONS', None)
    if env:
        full_env.update({k: str(v) for k, v in env.items()})
    t0 = time.time()
    try:
        proc = subprocess.run(cmd, cwd=cwd, env=full_env, capture_output=True, text=True,
                              timeout=timeout)
    except subprocess.TimeoutExpired as exc:
        raise MachineryError(f'TLC timed out after {timeout}s: {module} {cfg}') from exc
    finally:
        shutil.rmtree(metadir, ignore_errors=True)
    out = proc.stdout + proc.stderr
    res = TlcResult(ok=True, raw=out, cmd=' '.join(cmd), wall_s=time.time() - t0)
    for line in out.splitlines():
        s = line.strip()
        if len(s) >= 2 and s[0] == '"' and s[-1] == '"':
            try:
                res.prints.append(json.loads(_tla_unescape(s[1:-1])))
            except ValueError:
                pass
            continue
        m = re.match(r'(\d+) states generated, (\d+) distinct states found', s)
        if m:
            res.generated, res.distinct = int(m.group(1)), int(m.group(2))
            continue
        m = re.match(r'The depth of the complete state graph search is (\d+)', s)
        if m:
            res.depth = int(m.group(1))
            continue
        m = re.match(r'Error: (.*)', s)
        if m:
            res.errors.append(m.group(1))
            mm = re.match(r'(?:Invariant|Action property|Temporal properties?) ?(\S*) (?:is|was|were) violated', m.group(1))
            if mm:
                res.violated.append(mm.group(1))
            continue
        # coverage lines: <Name line 12, col 1 to line 20, col 30 of module X>: 12:345
        m = re.match(r'<(\w+) line \d+, col \d+ to line \d+, col \d+ of module (\w+)>: (\d+):(\d+)', s)
        if m:
            d, t = int(m.group(3)), int(m.group(4))
            old = res.coverage.get(m.group(1), (0, 0))
            res.coverage[m.group(1)] = (old[0] + d, old[1] + t)
    if res.errors:
        res.ok = False
    finished = ('Model checking completed' in out or 'Finished in' in out
                or 'Finished computing initial states' in out or simulate is not None)
    semantic = [e for e in res.errors if ('violated' in e or 'Deadlock' in e
                or 'Postcondition' in e.title() or 'POSTCONDITION' in e or 'Assumption' in e)]
    if proc.returncode != 0 and not semantic:
        raise MachineryError(f'TLC failed (rc={proc.returncode}) on {module}/{cfg}:\n' + out[-4000:])
    if not finished and not semantic:
        raise MachineryError(f'TLC did not finish on {module}/{cfg}:\n' + out[-4000:])
    return res
