"""Helpers imported by the harness drivers (which run with PYTHONPATH=/verif/shim:/repo/src)."""
from __future__ import annotations

import json
import os
import sys


def require_repo_src() -> None:
    """Abort (exit 2 = machinery failure) unless srctools is imported from /repo/src."""
    import srctools
    root = os.environ.get('VERIF_SRC', '/repo/src')
    path = os.path.realpath(srctools.__file__)
    if not path.startswith(os.path.realpath(root) + os.sep):
        sys.stderr.write(f'MACHINERY: srctools imported from {path}, expected under {root}\n')
        sys.exit(2)
    for mod in ('srctools._tokenizer', 'srctools._math', 'srctools._cy_vtf_readwrite'):
        if mod in sys.modules and getattr(sys.modules[mod], '__file__', '').endswith('.so'):
            sys.stderr.write(f'MACHINERY: compiled module {mod} loaded; checks bind to the Python tree\n')
            sys.exit(2)


class RecWriter:
    """NDJSON record writer. Each record gets a running index 'n' (1-based)."""
    def __init__(self, path: str) -> None:
        self.f = open(path, 'w', encoding='utf-8')
        self.n = 0

    def write(self, rec: dict) -> None:
        self.n += 1
        self.f.write(json.dumps(rec, separators=(',', ':'), ensure_ascii=True))
        self.f.write('\n')

    def close(self) -> None:
        self.f.close()


def seed() -> int:
    return int(os.environ.get('VERIF_SEED', '0') or 0)


def tier() -> str:
    t = os.environ.get('VERIF_TIER', 'quick')
    return t if t in ('quick', 'thorough') else 'quick'


def bfs_paths(edges: list, key, init_key=None) -> dict:
    """For edges [{s, a, t}] dumped by TLC: state key -> shortest action list from the initial state."""
    from collections import deque
    succ: dict = {}
    for e in edges:
        succ.setdefault(key(e['s']), []).append(e)
    if init_key is None:
        targets = {key(e['t']) for e in edges}
        cands = [key(e['s']) for e in edges if key(e['s']) not in targets]
        init_key = cands[0] if cands else min((key(e['s']) for e in edges), key=len)
    paths = {init_key: []}
    todo = deque([init_key])
    while todo:
        s = todo.popleft()
        for e in succ.get(s, ()):
            t = key(e['t'])
            if t not in paths:
                paths[t] = paths[s] + [e['a']]
                todo.append(t)
    return paths
