"""Harness-side helpers for the BSP checks (C10, C11): imported only by drivers (needs srctools).

* `Tracer`   wraps ParsedLump.__get__/__set__ and the BSP._save_funcs entries from outside, in this
             process, and records which views a reader / writer touches and which lumps change.
* `project`  structural projection of every parsed view to plain JSON (cross references expanded,
             so two files project equal iff their parsed content is equal).
* `measure`  the reader/writer dependency relations = the constants of specs/BspLazy.tla.
"""
from __future__ import annotations

import contextlib
import hashlib
import io
import json
import os

from vlib import hlib

hlib.require_repo_src()
from srctools import bsp as B  # noqa: E402
from srctools.bsp import BSP, BSP_LUMPS, ParsedLump  # noqa: E402

VIEWS: dict = {name: desc for name, desc in vars(BSP).items() if isinstance(desc, ParsedLump)}
VIEW_OF_LUMP = {desc.lump: name for name, desc in VIEWS.items()}


def lump_name(lump) -> str:
    return lump.name if isinstance(lump, BSP_LUMPS) else 'game:' + lump.decode('ascii')


ORDER = [VIEW_OF_LUMP[lmp] for lmp in B.LUMP_REBUILD_ORDER if lmp in VIEW_OF_LUMP]
UNORDERED = [lump_name(lmp) for lmp in B.LUMP_REBUILD_ORDER if lmp not in VIEW_OF_LUMP]
MAIN = {name: lump_name(desc.lump) for name, desc in VIEWS.items()}
CLEARS = {name: sorted(lump_name(lmp) for lmp in desc.to_clear) for name, desc in VIEWS.items()}


def raw_snapshot(bsp: BSP) -> dict:
    snap = {lump_name(k): v.data for k, v in bsp.lumps.items()}
    snap.update({lump_name(k): v.data for k, v in bsp.game_lumps.items()})
    return snap


class _Empty(bytes):
    """An empty bytes object with its own identity."""


class Tracer:
    """Event log of one BSP object: ['get', view, hit] / ['parsed', view] / ['set', view] / ['pop', view] /
    ['write', view, [lumps changed]].  Installed by patching class attributes; `uninstall` restores them."""
    def __init__(self) -> None:
        self.events: list = []
        self.stack: list = []
        self.on = False
        self._orig_get = ParsedLump.__get__
        self._orig_set = ParsedLump.__set__
        self._orig_funcs = dict(BSP._save_funcs)

    def install(self) -> 'Tracer':
        tracer = self
        orig_get, orig_set = self._orig_get, self._orig_set

        def traced_get(desc, instance, owner=None):
            if instance is None or not tracer.on:
                return orig_get(desc, instance, owner)
            hit = desc.lump in instance._parsed_lumps
            name = desc.__name__
            if hit:
                # one event per (enclosing reader/writer, view): loops touch a view thousands of times
                seen = tracer.stack[-1] if tracer.stack else None
                if seen is None or name not in seen:
                    tracer.events.append(['get', name, True])
                    if seen is not None:
                        seen.add(name)
                return orig_get(desc, instance, owner)
            tracer.events.append(['get', name, False])
            if tracer.stack:
                tracer.stack[-1].add(name)
            tracer.stack.append(set())
            try:
                res = orig_get(desc, instance, owner)
            finally:
                tracer.stack.pop()
            tracer.events.append(['parsed', name])
            return res

        def traced_set(desc, instance, value):
            if tracer.on:
                tracer.events.append(['set', desc.__name__])
            return orig_set(desc, instance, value)

        ParsedLump.__get__ = traced_get
        ParsedLump.__set__ = traced_set
        for lump, func in self._orig_funcs.items():
            BSP._save_funcs[lump] = self._wrap_writer(lump, func)
        return self

    def _wrap_writer(self, lump, func):
        tracer = self
        view = VIEW_OF_LUMP[lump]

        def writer(bsp, data):
            if not tracer.on:
                return func(bsp, data)
            tracer.events.append(['pop', view])
            # b'' is a singleton: give every empty lump its own (equal) empty bytes object for the duration of
            # the writer, so that 'the writer assigned b"" to an empty lump' is visible as an assignment
            marks = []
            for holder in list(bsp.lumps.values()) + list(bsp.game_lumps.values()):
                if type(holder.data) is bytes and not holder.data:
                    holder.data = _Empty()
                    marks.append(holder)
            before = raw_snapshot(bsp)
            tracer.stack.append(set())
            try:
                res = func(bsp, data)
                if not isinstance(res, bytes):      # generator: run it now, inside the bracket
                    res = b''.join(res)
            finally:
                tracer.stack.pop()
                after = raw_snapshot(bsp)
                for holder in marks:
                    if type(holder.data) is _Empty:
                        holder.data = b''
            # lumps emptied because a view was parsed inside the writer are that parse's effect, not a write
            start = len(tracer.events) - 1
            while tracer.events[start] != ['pop', view]:
                start -= 1
            cleared = {l for ev in tracer.events[start:] if ev[0] == 'parsed' for l in CLEARS[ev[1]]}
            # 'set by the writer' = the lump holds another bytes object than before (equal content counts)
            changed = sorted(k for k in after if after[k] is not before.get(k)
                             and not (k in cleared and after[k] == b''))
            tracer.events.append(['write', view, changed])
            return res
        return writer

    def uninstall(self) -> None:
        ParsedLump.__get__ = self._orig_get
        ParsedLump.__set__ = self._orig_set
        BSP._save_funcs.clear()
        BSP._save_funcs.update(self._orig_funcs)

    @contextlib.contextmanager
    def recording(self):
        self.on = True
        try:
            yield self
        finally:
            self.on = False

    def take(self) -> list:
        ev, self.events = self.events, []
        return ev


def quiet_save(bsp: BSP, path: str) -> None:
    """BSP.save prints 'Compress: ...' lines; keep them out of the driver's stdout."""
    with contextlib.redirect_stdout(io.StringIO()):
        bsp.save(path)


def cache_of(bsp: BSP) -> list:
    return sorted(VIEW_OF_LUMP[k] for k in bsp._parsed_lumps)


# ------------------------------------------------------------------ measuring the model constants
def deps_from_events(events: list) -> tuple[dict, dict, dict]:
    """Direct dependencies: reader of v touches w (get events between get(v, miss) and parsed(v));
    writer of v touches w (get events between pop(v) and write(v)) and changes lumps."""
    read_deps: dict = {}
    write_deps: dict = {}
    write_sets: dict = {}
    stack: list = []
    for ev in events:
        kind = ev[0]
        if kind == 'get':
            if stack:
                top = stack[-1]
                (read_deps if top[0] == 'r' else write_deps).setdefault(top[1], set()).add(ev[1])
            if not ev[2]:
                stack.append(('r', ev[1]))
                read_deps.setdefault(ev[1], set())
        elif kind == 'parsed':
            assert stack and stack[-1] == ('r', ev[1]), (stack, ev)
            stack.pop()
        elif kind == 'pop':
            stack.append(('w', ev[1]))
            write_deps.setdefault(ev[1], set())
        elif kind == 'write':
            assert stack and stack[-1] == ('w', ev[1]), (stack, ev)
            stack.pop()
            write_sets.setdefault(ev[1], set()).update(ev[2])
    assert not stack, stack
    return read_deps, write_deps, write_sets


def measure(path: str, tracer: Tracer, scratch: str) -> dict:
    """One fresh object: every view requested once (each reader runs exactly once, inside its own
    bracket, whether requested directly or pulled in by another reader), then save() (every writer
    runs once).  Returns the constant record of BspLazy."""
    read_deps = {v: set() for v in VIEWS}
    write_deps = {v: set() for v in VIEWS}
    write_sets = {v: set() for v in VIEWS}
    bsp = BSP(path)
    raw0 = raw_snapshot(bsp)
    with tracer.recording():
        for v in VIEWS:
            getattr(bsp, v)
        quiet_save(bsp, os.path.join(scratch, 'measure.bsp'))
        ev = tracer.take()
    parsed = [e[1] for e in ev if e[0] == 'parsed']
    popped = [e[1] for e in ev if e[0] == 'pop']
    if sorted(set(parsed)) != sorted(VIEWS) or not set(popped) >= set(ORDER):
        raise RuntimeError(f'measurement incomplete: parsed {sorted(parsed)}, popped {popped}')
    r, wd, ws = deps_from_events(ev)
    for k, s in r.items():
        read_deps[k] |= s
    for k, s in wd.items():
        write_deps[k] |= s
    for k, s in ws.items():
        write_sets[k] |= s
    lumps = sorted({l for v in VIEWS for l in CLEARS[v]} | {l for s in write_sets.values() for l in s} | {'OTHER'})
    empty = sorted(k for k, v in raw0.items() if not v and k in lumps)
    return {
        'views': sorted(VIEWS), 'order': ORDER, 'unordered': UNORDERED, 'lumps': lumps, 'emptyLumps': empty,
        'main': MAIN, 'clears': CLEARS,
        'readDeps': {v: sorted(read_deps[v]) for v in VIEWS},
        'writeDeps': {v: sorted(write_deps[v]) for v in VIEWS},
        'writeSets': {v: sorted(write_sets[v] - {MAIN[v]}) for v in VIEWS},
    }


def stub_constants() -> dict:
    """Constants for a file the code under test could not be measured on (every scenario on it is
    reported as failed; the static part keeps the specification well-formed)."""
    lumps = sorted({l for v in VIEWS for l in CLEARS[v]} | {'OTHER'})
    none = {v: [] for v in VIEWS}
    return {'views': sorted(VIEWS), 'order': ORDER, 'unordered': UNORDERED, 'lumps': lumps, 'emptyLumps': [],
            'main': MAIN, 'clears': CLEARS, 'readDeps': none, 'writeDeps': none, 'writeSets': none, 'stub': True}


# ------------------------------------------------------------------ projection
class Projector:
    """Projects parsed objects to JSON-able values: dicts carrying a '_t' type label, cross references
    expanded structurally (so two files project equal iff their parsed content is equal, whatever the
    indexes in the file are).  One Python dict per object (memoised), so shared objects cost nothing."""
    def __init__(self, bsp: BSP) -> None:
        self.bsp = bsp
        self.memo: dict = {}
        self.keep: list = []

    def obj(self, kind: str, o, build) -> dict:
        key = (kind, id(o))
        if key not in self.memo:
            self.keep.append(o)
            self.memo[key] = {'_t': kind, 'cycle': True}
            self.memo[key] = dict(build(o), _t=kind)
        return self.memo[key]

    @staticmethod
    def vec(v) -> list:
        return [float(v.x), float(v.y), float(v.z)]

    def plane(self, p) -> dict:
        return self.obj('Plane', p, lambda p: dict(normal=self.vec(p.normal), dist=float(p.dist), type=p.type.value))

    def texinfo(self, t):
        if t is None:
            return None
        return self.obj('TexInfo', t, lambda t: dict(
            s_off=self.vec(t.s_off), s_shift=t.s_shift, t_off=self.vec(t.t_off), t_shift=t.t_shift,
            lightmap_s_off=self.vec(t.lightmap_s_off), lightmap_s_shift=t.lightmap_s_shift,
            lightmap_t_off=self.vec(t.lightmap_t_off), lightmap_t_shift=t.lightmap_t_shift, flags=t.flags.value,
            mat=t._info.mat, reflectivity=self.vec(t._info.reflectivity), width=t._info.width, height=t._info.height))

    def edge(self, e) -> list:
        return [self.vec(e.a), self.vec(e.b)]

    def prim(self, p) -> dict:
        return self.obj('Primitive', p, lambda p: dict(is_tristrip=int(p.is_tristrip), indexed_verts=list(p.indexed_verts),
                                                       verts=[self.vec(v) for v in p.verts]))

    def face(self, f):
        if f is None:
            return None
        return self.obj('Face', f, lambda f: dict(
            plane=self.plane(f.plane), same_dir_as_plane=bool(f.same_dir_as_plane), on_node=bool(f.on_node),
            edges=[self.edge(e) for e in f.edges], texinfo=self.texinfo(f.texinfo), dispinfo=f._dispinfo_ind,
            surf_fog_volume_id=f.surf_fog_volume_id, light_styles=f.light_styles.hex(), lightmap_off=f._lightmap_off,
            area=float(f.area), lightmap_mins=list(f.lightmap_mins), lightmap_size=list(f.lightmap_size),
            orig_face=self.face(f.orig_face), primitives=[self.prim(p) for p in f.primitives],
            dynamic_shadows=bool(f.dynamic_shadows), smoothing_groups=f.smoothing_groups, hammer_id=f.hammer_id,
            vitamin_flags=f.vitamin_flags))

    def side(self, s) -> dict:
        return dict(_t='BrushSide', plane=self.plane(s.plane), texinfo=self.texinfo(s.texinfo), dispinfo=s._dispinfo,
                    is_bevel_plane=bool(s.is_bevel_plane), unknown_bevel_bits=s._unknown_bevel_bits)

    def brush(self, b) -> dict:
        return self.obj('Brush', b, lambda b: dict(contents=b.contents.value, sides=[self.side(s) for s in b.sides]))

    def leaf(self, lf) -> dict:
        return self.obj('VisLeaf', lf, lambda lf: dict(
            contents=lf.contents.value, cluster_id=lf.cluster_id, area=lf.area, flags=lf.flags.value, mins=self.vec(lf.mins),
            maxes=self.vec(lf.maxes), faces=[self.face(f) for f in lf.faces], brushes=[self.brush(b) for b in lf.brushes],
            water_id=lf.water_id, ambient=lf._ambient.hex(), min_water_dist=lf.min_water_dist))

    def node(self, n) -> dict:
        if isinstance(n, B.VisLeaf):
            return self.leaf(n)
        return self.obj('VisTree', n, lambda n: dict(
            plane=self.plane(n.plane), mins=self.vec(n.mins), maxes=self.vec(n.maxes), faces=[self.face(f) for f in n.faces],
            area_ind=n.area_ind, child_neg=self.node(n.child_neg), child_pos=self.node(n.child_pos)))

    @staticmethod
    def kv(tree):
        if tree is None:
            return None

        def rec(k):
            if k.has_children():
                return [k.real_name, [rec(c) for c in k]]
            return [k.real_name, k.value]
        return rec(tree)

    def view(self, name: str):
        bsp = self.bsp
        val = getattr(bsp, name)
        if name == 'pakfile':
            return [dict(_t='PakEntry', name=zi.filename, data=hashlib.sha1(val.read(zi)).hexdigest(), size=zi.file_size,
                         compress=zi.compress_type) for zi in val.infolist()]
        if name == 'ents':
            ents = []
            for ent in [val.spawn] + list(val.entities):
                outs = [[o.output, o.inst_out, o.target, o.input, o.inst_in, o.params, float(o.delay), o.times, bool(o.comma_sep)]
                        for o in ent.outputs]
                ents.append(dict(_t='Entity', keys={k: v for k, v in ent.items()}, outputs=outs))
            return ents
        if name == 'textures':
            return list(val)
        if name == 'texinfo':
            return [self.texinfo(t) for t in val]
        if name == 'cubemaps':
            return [dict(_t='Cubemap', origin=self.vec(c.origin), size=c.size) for c in val]
        if name == 'overlays':
            return [dict(_t='Overlay', id=o.id, origin=self.vec(o.origin), normal=self.vec(o.normal), texture=self.texinfo(o.texture),
                         face_count=o.face_count, faces=list(o.faces), render_order=o.render_order, u_min=o.u_min, u_max=o.u_max,
                         v_min=o.v_min, v_max=o.v_max, uv1=self.vec(o.uv1), uv2=self.vec(o.uv2), uv3=self.vec(o.uv3),
                         uv4=self.vec(o.uv4), fade_min_sq=o.fade_min_sq, fade_max_sq=o.fade_max_sq, min_cpu=o.min_cpu,
                         max_cpu=o.max_cpu, min_gpu=o.min_gpu, max_gpu=o.max_gpu) for o in val]
        if name == 'bmodels':
            vmf = bsp.ents
            order = {id(vmf.spawn): -1}
            order.update({id(e): i for i, e in enumerate(vmf.entities)})
            res = []
            for ent, mdl in val.items():
                res.append(dict(_t='BModel', ent=order.get(id(ent), 'foreign'), mins=self.vec(mdl.mins), maxes=self.vec(mdl.maxes),
                                origin=self.vec(mdl.origin), node=self.node(mdl.node), faces=[self.face(f) for f in mdl.faces],
                                phys_keyvalues=self.kv(mdl.phys_keyvalues), phys_solids=[s.hex() for s in mdl._phys_solids]))
            return sorted(res, key=lambda r: str(r['ent']))
        if name == 'brushes':
            return [self.brush(b) for b in val]
        if name == 'visleafs':
            return [self.leaf(lf) for lf in val]
        if name == 'water_leaf_info':
            return [dict(_t='LeafWaterInfo', surface_z=x.surface_z, min_z=x.min_z, surface_texinfo=self.texinfo(x.surface_texinfo))
                    for x in val]
        if name == 'nodes':
            return [self.node(n) for n in val]
        if name == 'visibility':
            return None if val is None else dict(_t='Visibility', pvs=[bytes(r).hex() for r in val.potentially_visible],
                                                 pas=[bytes(r).hex() for r in val.potentially_audible])
        if name == 'vertexes':
            return [self.vec(v) for v in val]
        if name == 'surfedges':
            return [self.edge(e) for e in val]
        if name == 'planes':
            return [self.plane(p) for p in val]
        if name in ('faces', 'orig_faces', 'hdr_faces'):
            return [self.face(f) for f in val]
        if name == 'primitives':
            return [self.prim(p) for p in val]
        if name == 'props':
            leaf_ix = {id(lf): i for i, lf in enumerate(bsp.visleafs)}
            res = []
            for p in val:
                sc = p.scaling
                leafs = sorted(((leaf_ix.get(id(lf), -1), lf) for lf in p.visleafs), key=lambda t: t[0])
                res.append(dict(
                    _t='StaticProp', model=p.model, origin=self.vec(p.origin), angles=[p.angles.pitch, p.angles.yaw, p.angles.roll],
                    scaling=self.vec(sc) if not isinstance(sc, (int, float)) else float(sc),
                    visleafs=[self.leaf(lf) for _, lf in leafs], solidity=p.solidity, flags=p.flags.value,
                    skin=p.skin, min_fade=p.min_fade, max_fade=p.max_fade, lighting=self.vec(p.lighting), fade_scale=p.fade_scale,
                    min_dx_level=p.min_dx_level, max_dx_level=p.max_dx_level, min_cpu_level=p.min_cpu_level,
                    max_cpu_level=p.max_cpu_level, min_gpu_level=p.min_gpu_level, max_gpu_level=p.max_gpu_level,
                    tint=self.vec(p.tint), renderfx=p.renderfx, disable_on_xbox=bool(p.disable_on_xbox),
                    lightmap_x=p.lightmap_x, lightmap_y=p.lightmap_y))
            return dict(_t='StaticProps', version=bsp.static_prop_version.name, props=res)
        if name == 'detail_props':
            res = []
            for p in val:
                row = dict(_t='DetailProp', kind=type(p).__name__, origin=self.vec(p.origin),
                           angles=[p.angles.pitch, p.angles.yaw, p.angles.roll], orientation=p.orientation.value, leaf=p.leaf,
                           lighting=list(p.lighting), light_styles=list(p._light_styles), sway_amount=p.sway_amount)
                if isinstance(p, B.DetailPropModel):
                    row['model'] = p.model
                else:
                    row.update(sprite_scale=p.sprite_scale, dims_upper_left=list(p.dims_upper_left),
                               dims_lower_right=list(p.dims_lower_right), texcoord_upper_left=list(p.texcoord_upper_left),
                               texcoord_lower_right=list(p.texcoord_lower_right))
                    if isinstance(p, B.DetailPropShape):
                        row.update(is_cross=bool(p.is_cross), shape_angle=p.shape_angle, shape_size=p.shape_size)
                res.append(row)
            return res
        raise KeyError(name)


def diff_labels(a, b, label: str, out: set, seen: set | None = None) -> set:
    """The set of field labels ('Type.field', 'view:len', ...) at which two projections differ."""
    if seen is None:
        seen = set()
    if a is b:
        return out
    if type(a) is not type(b):
        out.add(label + ':type')
        return out
    if isinstance(a, dict):
        key = (id(a), id(b))
        if key in seen:
            return out
        seen.add(key)
        typ = a.get('_t', label)
        for k in sorted(set(a) | set(b)):
            if k not in a or k not in b:
                out.add(f'{typ}.{k}:missing')
            else:
                diff_labels(a[k], b[k], f'{typ}.{k}', out, seen)
    elif isinstance(a, list):
        if len(a) != len(b):
            out.add(label + ':len')
        for x, y in zip(a, b):
            diff_labels(x, y, label, out, seen)
    elif a != b:
        out.add(label)
    return out


PROJECT_ORDER = ['ents', 'textures', 'texinfo', 'planes', 'vertexes', 'surfedges', 'primitives', 'orig_faces', 'faces',
                 'hdr_faces', 'brushes', 'visleafs', 'water_leaf_info', 'nodes', 'visibility', 'bmodels', 'cubemaps',
                 'overlays', 'pakfile', 'props', 'detail_props']
assert sorted(PROJECT_ORDER) == sorted(VIEWS), sorted(set(VIEWS) ^ set(PROJECT_ORDER))


def is_trivial(val) -> bool:
    """A view with no content: losing it cannot be observed."""
    if val is None or val == []:
        return True
    return isinstance(val, dict) and val.get('_t') == 'StaticProps' and not val['props']


def project_file(path: str) -> dict:
    """Header fields, per-lump meta + raw bytes (before any view is parsed), and every view's projection."""
    bsp = BSP(path)
    ver = bsp.version.value if isinstance(bsp.version, B.VERSIONS) else bsp.version
    head = {'version': ver, 'game_ver': bsp.game_ver.value, 'map_revision': bsp.map_revision}
    meta = {lump_name(k): [v.version, bool(v.is_compressed)] for k, v in bsp.lumps.items()}
    meta.update({lump_name(k): [v.version, v.flags] for k, v in bsp.game_lumps.items()})
    raw = raw_snapshot(bsp)
    proj = Projector(bsp)
    views = {}
    errors = {}
    for name in PROJECT_ORDER:
        try:
            views[name] = proj.view(name)
        except Exception as exc:   # a lump the reader can no longer parse is a (reported) difference
            views[name] = {'_t': 'UNREADABLE', 'error': type(exc).__name__}
            errors[name] = f'{type(exc).__name__}: {exc}'
    return {'head': head, 'meta': meta, 'raw': raw, 'views': views, 'errors': errors,
            'game_order': [lump_name(k) for k in bsp.game_lumps]}


def compare_files(ref: dict, new: dict) -> dict:
    """Differences of two project_file() results, as lists the trace specification judges."""
    head = sorted(k for k in ref['head'] if ref['head'][k] != new['head'].get(k))
    meta = sorted(k for k in set(ref['meta']) | set(new['meta']) if ref['meta'].get(k) != new['meta'].get(k))
    changed = sorted(k for k in set(ref['raw']) | set(new['raw']) if ref['raw'].get(k) != new['raw'].get(k))
    view_diff = []
    for name in PROJECT_ORDER:
        for lab in sorted(diff_labels(ref['views'][name], new['views'][name], name, set())):
            view_diff.append([name, lab])
    return {'headDiff': head, 'metaDiff': meta, 'changed': changed, 'viewDiff': view_diff}
