"""Harness-side helpers for the BSP checks (C10, C11): imported only by drivers (needs srctools).

* `Tracer`   wraps ParsedLump.__get__/__set__ and the BSP._save_funcs entries from outside, in this
             process, and records which views a reader / writer touches and which lumps change.
* `project`  structural projection of every parsed view to plain JSON (cross references expanded,
             so two files project equal iff their parsed content is equal).
* `measure`  the reader/writer dependency relations = the constants of specs/BspLazy.tla.
"""
from __future__ import annotations

import contextlib
import hashlib
import io
import json
import os

from vlib import hlib

hlib.require_repo_src()
from srctools import bsp as B  # noqa: E402
from srctools.bsp import BSP, BSP_LUMPS, ParsedLump  # noqa: E402

VIEWS: dict = {name: desc for name, desc in vars(BSP).items() if isinstance(desc, ParsedLump)}
VIEW_OF_LUMP = {desc.lump: name for name, desc in VIEWS.items()}


def lump_name(lump) -> str:
    return lump.name if isinstance(lump, BSP_LUMPS) else 'game:' + lump.decode('ascii')


ORDER = [VIEW_OF_LUMP[lmp] for lmp in B.LUMP_REBUILD_ORDER if lmp in VIEW_OF_LUMP]
UNORDERED = [lump_name(lmp) for lmp in B.LUMP_REBUILD_ORDER if lmp not in VIEW_OF_LUMP]
MAIN = {name: lump_name(desc.lump) for name, desc in VIEWS.items()}
CLEARS = {name: sorted(lump_name(lmp) for lmp in desc.to_clear) for name, desc in VIEWS.items()}


def raw_snapshot(bsp: BSP) -> dict:
    snap = {lump_name(k): v.data for k, v in bsp.lumps.items()}
    snap.update({lump_name(k): v.data for k, v in bsp.game_lumps.items()})
    return snap


class Tracer:
    """Event log of one BSP object: ['get', view, hit] / ['parsed', view] / ['set', view] / ['pop', view] /
    ['write', view, [lumps changed]].  Installed by patching class attributes; `uninstall` restores them."""
    def __init__(self) -> None:
        self.events: list = []
        self.on = False
        self._orig_get = ParsedLump.__get__
        self._orig_set = ParsedLump.__set__
        self._orig_funcs = dict(BSP._save_funcs)

    def install(self) -> 'Tracer':
        tracer = self
        orig_get, orig_set = self._orig_get, self._orig_set

        def traced_get(desc, instance, owner=None):
            if instance is None or not tracer.on:
                return orig_get(desc, instance, owner)
            hit = desc.lump in instance._parsed_lumps
            tracer.events.append(['get', desc.__name__, hit])
            res = orig_get(desc, instance, owner)
            if not hit:
                tracer.events.append(['parsed', desc.__name__])
            return res

        def traced_set(desc, instance, value):
            if tracer.on:
                tracer.events.append(['set', desc.__name__])
            return orig_set(desc, instance, value)

        ParsedLump.__get__ = traced_get
        ParsedLump.__set__ = traced_set
        for lump, func in self._orig_funcs.items():
            BSP._save_funcs[lump] = self._wrap_writer(lump, func)
        return self

    def _wrap_writer(self, lump, func):
        tracer = self
        view = VIEW_OF_LUMP[lump]

        def writer(bsp, data):
            if not tracer.on:
                return func(bsp, data)
            tracer.events.append(['pop', view])
            before = raw_snapshot(bsp)
            res = func(bsp, data)
            if not isinstance(res, bytes):      # generator: run it now, inside the bracket
                res = b''.join(res)
            after = raw_snapshot(bsp)
            changed = sorted(k for k in after if after[k] is not before.get(k) and after[k] != before.get(k))
            tracer.events.append(['write', view, changed])
            return res
        return writer

    def uninstall(self) -> None:
        ParsedLump.__get__ = self._orig_get
        ParsedLump.__set__ = self._orig_set
        BSP._save_funcs.clear()
        BSP._save_funcs.update(self._orig_funcs)

    @contextlib.contextmanager
    def recording(self):
        self.on = True
        try:
            yield self
        finally:
            self.on = False

    def take(self) -> list:
        ev, self.events = self.events, []
        return ev


def quiet_save(bsp: BSP, path: str) -> None:
    """BSP.save prints 'Compress: ...' lines; keep them out of the driver's stdout."""
    with contextlib.redirect_stdout(io.StringIO()):
        bsp.save(path)


def cache_of(bsp: BSP) -> list:
    return sorted(VIEW_OF_LUMP[k] for k in bsp._parsed_lumps)


# ------------------------------------------------------------------ measuring the model constants
def deps_from_events(events: list) -> tuple[dict, dict, dict]:
    """Direct dependencies: reader of v touches w (get events between get(v, miss) and parsed(v));
    writer of v touches w (get events between pop(v) and write(v)) and changes lumps."""
    read_deps: dict = {}
    write_deps: dict = {}
    write_sets: dict = {}
    stack: list = []
    for ev in events:
        kind = ev[0]
        if kind == 'get':
            if stack:
                top = stack[-1]
                (read_deps if top[0] == 'r' else write_deps).setdefault(top[1], set()).add(ev[1])
            if not ev[2]:
                stack.append(('r', ev[1]))
                read_deps.setdefault(ev[1], set())
        elif kind == 'parsed':
            assert stack and stack[-1] == ('r', ev[1]), (stack, ev)
            stack.pop()
        elif kind == 'pop':
            stack.append(('w', ev[1]))
            write_deps.setdefault(ev[1], set())
        elif kind == 'write':
            assert stack and stack[-1] == ('w', ev[1]), (stack, ev)
            stack.pop()
            write_sets.setdefault(ev[1], set()).update(ev[2])
    assert not stack, stack
    return read_deps, write_deps, write_sets


def measure(path: str, tracer: Tracer, scratch: str) -> dict:
    """Reader deps: every view parsed first on a fresh object; writer deps: for every view v a fresh
    object with exactly v requested, saved.  Returns the constant record of BspLazy."""
    read_deps = {v: set() for v in VIEWS}
    write_deps = {v: set() for v in VIEWS}
    write_sets = {v: set() for v in VIEWS}
    for v in VIEWS:
        bsp = BSP(path)
        with tracer.recording():
            getattr(bsp, v)
            r, _, _ = deps_from_events(tracer.take())
        for k, s in r.items():
            read_deps[k] |= s
        with tracer.recording():
            quiet_save(bsp, os.path.join(scratch, 'measure.bsp'))
            ev = tracer.take()
        r, wd, ws = deps_from_events(ev)
        for k, s in r.items():
            read_deps[k] |= s
        for k, s in wd.items():
            write_deps[k] |= s
        for k, s in ws.items():
            write_sets[k] |= s
    lumps = sorted({l for v in VIEWS for l in CLEARS[v]} | {l for s in write_sets.values() for l in s} | {'OTHER'})
    return {
        'views': sorted(VIEWS), 'order': ORDER, 'unordered': UNORDERED, 'lumps': lumps,
        'main': MAIN, 'clears': CLEARS,
        'readDeps': {v: sorted(read_deps[v]) for v in VIEWS},
        'writeDeps': {v: sorted(write_deps[v]) for v in VIEWS},
        'writeSets': {v: sorted(write_sets[v] - {MAIN[v]}) for v in VIEWS},
    }


# ------------------------------------------------------------------ projection
class Projector:
    """Projects parsed objects to JSON-able values. Shared sub-objects are expanded structurally
    (memoised per object, replaced by a digest once seen) so cross references are compared by
    content, never by index."""
    def __init__(self, bsp: BSP) -> None:
        self.bsp = bsp
        self.memo: dict = {}
        self.keep: list = []

    def dig(self, kind: str, obj, build) -> str:
        key = (kind, id(obj))
        if key not in self.memo:
            self.memo[key] = None      # cycle guard
            self.keep.append(obj)
            val = build(obj)
            self.memo[key] = kind + ':' + hashlib.sha1(json.dumps(val, sort_keys=True, default=str).encode()).hexdigest()[:16]
        elif self.memo[key] is None:
            return kind + ':cycle'
        return self.memo[key]

    @staticmethod
    def vec(v) -> list:
        return [float(v.x), float(v.y), float(v.z)]

    def plane(self, p) -> str:
        return self.dig('plane', p, lambda p: [self.vec(p.normal), float(p.dist), p.type.value])

    def texinfo(self, t):
        if t is None:
            return None
        return self.dig('texinfo', t, lambda t: [
            self.vec(t.s_off), t.s_shift, self.vec(t.t_off), t.t_shift, self.vec(t.lightmap_s_off), t.lightmap_s_shift,
            self.vec(t.lightmap_t_off), t.lightmap_t_shift, t.flags.value,
            [t._info.mat, self.vec(t._info.reflectivity), t._info.width, t._info.height]])

    def edge(self, e) -> list:
        return [self.vec(e.a), self.vec(e.b)]

    def prim(self, p) -> str:
        return self.dig('prim', p, lambda p: [int(p.is_tristrip), list(p.indexed_verts), [self.vec(v) for v in p.verts]])

    def face(self, f, with_orig: bool = True):
        if f is None:
            return None
        return self.dig('face', f, lambda f: [
            self.plane(f.plane), bool(f.same_dir_as_plane), bool(f.on_node), [self.edge(e) for e in f.edges],
            self.texinfo(f.texinfo), f._dispinfo_ind, f.surf_fog_volume_id, f.light_styles.hex(), f._lightmap_off,
            float(f.area), list(f.lightmap_mins), list(f.lightmap_size), self.face(f.orig_face),
            [self.prim(p) for p in f.primitives], bool(f.dynamic_shadows), f.smoothing_groups, f.hammer_id, f.vitamin_flags])

    def side(self, s) -> list:
        return [self.plane(s.plane), self.texinfo(s.texinfo), s._dispinfo, bool(s.is_bevel_plane), s._unknown_bevel_bits]

    def brush(self, b) -> str:
        return self.dig('brush', b, lambda b: [b.contents.value, [self.side(s) for s in b.sides]])

    def leaf(self, lf) -> str:
        return self.dig('leaf', lf, lambda lf: [
            lf.contents.value, lf.cluster_id, lf.area, lf.flags.value, self.vec(lf.mins), self.vec(lf.maxes),
            [self.face(f) for f in lf.faces], [self.brush(b) for b in lf.brushes], lf.water_id, lf._ambient.hex(),
            lf.min_water_dist])

    def node(self, n) -> str:
        if isinstance(n, B.VisLeaf):
            return self.leaf(n)
        return self.dig('node', n, lambda n: [
            self.plane(n.plane), self.vec(n.mins), self.vec(n.maxes), [self.face(f) for f in n.faces], n.area_ind,
            self.node(n.child_neg), self.node(n.child_pos)])

    @staticmethod
    def kv(tree) -> list | None:
        if tree is None:
            return None

        def rec(k):
            if k.has_children():
                return [k.real_name, [rec(c) for c in k]]
            return [k.real_name, k.value]
        return rec(tree)

    def view(self, name: str):
        bsp = self.bsp
        val = getattr(bsp, name)
        if name == 'pakfile':
            return [[zi.filename, val.read(zi).hex() if zi.file_size < 64 else hashlib.sha1(val.read(zi)).hexdigest(),
                     zi.compress_type] for zi in val.infolist()]
        if name == 'ents':
            ents = []
            for ent in [val.spawn] + list(val.entities):
                keys = sorted([k, v] for k, v in ent.items())
                outs = [[o.output, o.inst_out, o.target, o.input, o.inst_in, o.params, float(o.delay), o.times, bool(o.comma_sep)]
                        for o in ent.outputs]
                ents.append([keys, outs])
            return ents
        if name == 'textures':
            return list(val)
        if name == 'texinfo':
            return [self.texinfo(t) for t in val]
        if name == 'cubemaps':
            return [[self.vec(c.origin), c.size] for c in val]
        if name == 'overlays':
            return [[o.id, self.vec(o.origin), self.vec(o.normal), self.texinfo(o.texture), o.face_count, list(o.faces),
                     o.render_order, o.u_min, o.u_max, o.v_min, o.v_max, self.vec(o.uv1), self.vec(o.uv2), self.vec(o.uv3),
                     self.vec(o.uv4), o.fade_min_sq, o.fade_max_sq, o.min_cpu, o.max_cpu, o.min_gpu, o.max_gpu] for o in val]
        if name == 'bmodels':
            vmf = bsp.ents
            order = {id(vmf.spawn): -1}
            order.update({id(e): i for i, e in enumerate(vmf.entities)})
            res = []
            for ent, mdl in val.items():
                res.append([order.get(id(ent), 'foreign'), self.vec(mdl.mins), self.vec(mdl.maxes), self.vec(mdl.origin),
                            self.node(mdl.node), [self.face(f) for f in mdl.faces], self.kv(mdl.phys_keyvalues),
                            [s.hex() for s in mdl._phys_solids]])
            return sorted(res, key=lambda r: str(r[0]))
        if name == 'brushes':
            return [self.brush(b) for b in val]
        if name == 'visleafs':
            return [self.leaf(lf) for lf in val]
        if name == 'water_leaf_info':
            return [[x.surface_z, x.min_z, self.texinfo(x.surface_texinfo)] for x in val]
        if name == 'nodes':
            return [self.node(n) for n in val]
        if name == 'visibility':
            return None if val is None else [[bytes(r).hex() for r in val.potentially_visible],
                                             [bytes(r).hex() for r in val.potentially_audible]]
        if name == 'vertexes':
            return [self.vec(v) for v in val]
        if name == 'surfedges':
            return [self.edge(e) for e in val]
        if name == 'planes':
            return [self.plane(p) for p in val]
        if name in ('faces', 'orig_faces', 'hdr_faces'):
            return [self.face(f) for f in val]
        if name == 'primitives':
            return [self.prim(p) for p in val]
        if name == 'props':
            leaf_ix = {id(lf): i for i, lf in enumerate(bsp.visleafs)}
            res = []
            for p in val:
                sc = p.scaling
                res.append([p.model, self.vec(p.origin), [p.angles.pitch, p.angles.yaw, p.angles.roll],
                            self.vec(sc) if not isinstance(sc, (int, float)) else float(sc),
                            sorted((leaf_ix.get(id(lf), -1), self.leaf(lf)) for lf in p.visleafs), p.solidity, p.flags.value,
                            p.skin, p.min_fade, p.max_fade, self.vec(p.lighting), p.fade_scale, p.min_dx_level, p.max_dx_level,
                            p.min_cpu_level, p.max_cpu_level, p.min_gpu_level, p.max_gpu_level, self.vec(p.tint), p.renderfx,
                            bool(p.disable_on_xbox), p.lightmap_x, p.lightmap_y])
            return [bsp.static_prop_version.name, res]
        if name == 'detail_props':
            res = []
            for p in val:
                row = [type(p).__name__, self.vec(p.origin), [p.angles.pitch, p.angles.yaw, p.angles.roll], p.orientation.value,
                       p.leaf, list(p.lighting), list(p._light_styles), p.sway_amount]
                if isinstance(p, B.DetailPropModel):
                    row.append(p.model)
                else:
                    row += [p.sprite_scale, list(p.dims_upper_left), list(p.dims_lower_right), list(p.texcoord_upper_left),
                            list(p.texcoord_lower_right)]
                    if isinstance(p, B.DetailPropShape):
                        row += [bool(p.is_cross), p.shape_angle, p.shape_size]
                res.append(row)
            return res
        raise KeyError(name)


PROJECT_ORDER = ['ents', 'textures', 'texinfo', 'planes', 'vertexes', 'surfedges', 'primitives', 'orig_faces', 'faces',
                 'hdr_faces', 'brushes', 'visleafs', 'water_leaf_info', 'nodes', 'visibility', 'bmodels', 'cubemaps',
                 'overlays', 'pakfile', 'props', 'detail_props']
assert sorted(PROJECT_ORDER) == sorted(VIEWS), sorted(set(VIEWS) ^ set(PROJECT_ORDER))


def digest(val) -> str:
    return hashlib.sha1(json.dumps(val, sort_keys=True, default=str).encode()).hexdigest()[:20]


def project_file(path: str) -> dict:
    """Header fields, per-lump meta + raw bytes (before any view is parsed), and every view's projection."""
    bsp = BSP(path)
    ver = bsp.version.value if isinstance(bsp.version, B.VERSIONS) else bsp.version
    head = {'version': ver, 'game_ver': bsp.game_ver.value, 'map_revision': bsp.map_revision}
    meta = {lump_name(k): [v.version, bool(v.is_compressed)] for k, v in bsp.lumps.items()}
    meta.update({lump_name(k): [v.version, v.flags] for k, v in bsp.game_lumps.items()})
    raw = raw_snapshot(bsp)
    proj = Projector(bsp)
    views = {}
    errors = {}
    for name in PROJECT_ORDER:
        try:
            views[name] = proj.view(name)
        except Exception as exc:   # a lump the reader can no longer parse is a (reported) difference
            views[name] = ['UNREADABLE', type(exc).__name__]
            errors[name] = f'{type(exc).__name__}: {exc}'
    return {'head': head, 'meta': meta, 'raw': raw, 'views': views, 'errors': errors,
            'game_order': [lump_name(k) for k in bsp.game_lumps]}
