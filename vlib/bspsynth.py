"""Independent synthesiser of Source BSP files for the C10/C11 checks.

Nothing here imports srctools: the header, lump table, game-lump directory, LZMA framing and
every structured lump are encoded from an index-based description (a ``world`` dict) with plain
``struct`` calls, so that the reader under test is never judged by its own writer.

Layouts (what `srctools.bsp.BSP.read` distinguishes):
  v19      version 19, leaf version 0 (24 bytes of ambient light inside the leaf)
  v20      version 20 (Source 2007/2013)
  v21      version 21 (Portal 2, CS:GO), normal lump-table field order
  l4d2     version 21 with the L4D2 lump-table field order (version, offset, length, fourCC)
  infra    version 22, 16 byte primitives with 32 bit index ranges
  chaos    version 25 (Chaos/Strata raised limits)
  vitamin  version 43, magic 'FART' (Desolation)
"""
from __future__ import annotations

import io
import lzma
import random
import struct
import zipfile

LAYOUTS = ('v19', 'v20', 'v21', 'l4d2', 'infra', 'chaos', 'vitamin')
VERSION_OF = {'v19': 19, 'v20': 20, 'v21': 21, 'l4d2': 21, 'infra': 22, 'chaos': 25, 'vitamin': 43}

LUMP_NAMES = {
    0: 'ENTITIES', 1: 'PLANES', 2: 'TEXDATA', 3: 'VERTEXES', 4: 'VISIBILITY', 5: 'NODES', 6: 'TEXINFO',
    7: 'FACES', 8: 'LIGHTING', 9: 'OCCLUSION', 10: 'LEAFS', 11: 'FACEIDS', 12: 'EDGES', 13: 'SURFEDGES',
    14: 'MODELS', 15: 'WORLDLIGHTS', 16: 'LEAFFACES', 17: 'LEAFBRUSHES', 18: 'BRUSHES', 19: 'BRUSHSIDES',
    20: 'AREAS', 21: 'AREAPORTALS', 22: 'PORTALS', 23: 'CLUSTERS', 24: 'PORTALVERTS', 25: 'CLUSTERPORTALS',
    26: 'DISPINFO', 27: 'ORIGINALFACES', 28: 'PHYSDISP', 29: 'PHYSCOLLIDE', 30: 'VERTNORMALS',
    31: 'VERTNORMALINDICES', 32: 'DISP_LIGHTMAP_ALPHAS', 33: 'DISP_VERTS',
    34: 'DISP_LIGHTMAP_SAMPLE_POSITIONS', 35: 'GAME_LUMP', 36: 'LEAFWATERDATA', 37: 'PRIMITIVES',
    38: 'PRIMVERTS', 39: 'PRIMINDICES', 40: 'PAKFILE', 41: 'CLIPPORTALVERTS', 42: 'CUBEMAPS',
    43: 'TEXDATA_STRING_DATA', 44: 'TEXDATA_STRING_TABLE', 45: 'OVERLAYS', 46: 'LEAFMINDISTTOWATER',
    47: 'FACE_MACRO_TEXTURE_INFO', 48: 'DISP_TRIS', 49: 'PROP_BLOB', 50: 'WATEROVERLAYS',
    51: 'LEAF_AMBIENT_INDEX_HDR', 52: 'LEAF_AMBIENT_INDEX', 53: 'LIGHTING_HDR', 54: 'WORLDLIGHTS_HDR',
    55: 'LEAF_AMBIENT_LIGHTING_HDR', 56: 'LEAF_AMBIENT_LIGHTING', 57: 'XZIPPAKFILE', 58: 'FACES_HDR',
    59: 'MAP_FLAGS', 60: 'OVERLAY_FADES', 61: 'OVERLAY_SYSTEM_LEVELS', 62: 'PHYSLEVEL', 63: 'DISP_MULTIBLEND',
}
LUMP_INDEX = {v: k for k, v in LUMP_NAMES.items()}

# static prop formats: name -> (game lump version, struct size)
SPRP = {
    'V4': (4, 56), 'V5': (5, 60), 'V6': (6, 64), 'V7': (7, 68), 'V8': (8, 68), 'V9': (9, 72), 'V10': (10, 76),
    'V11': (11, 80), 'V_LIGHTMAP_v7': (7, 72), 'V_LIGHTMAP_v10': (10, 72), 'V_LIGHTMAP_MESA': (11, 80),
    'V_CHAOS_V12': (12, 80), 'V_CHAOS_V13': (13, 88),
}


# ------------------------------------------------------------------ LZMA framing (Source flavour)
_LC, _LP, _PB, _DICT = 3, 0, 2, 1 << 24


def lzma_pack(data: bytes) -> bytes:
    """'LZMA' + actual size + compressed size + 5 property bytes + raw LZMA1 stream (lzma_header_t)."""
    filt = {'id': lzma.FILTER_LZMA1, 'dict_size': _DICT, 'lc': _LC, 'lp': _LP, 'pb': _PB}
    body = lzma.compress(data, lzma.FORMAT_RAW, filters=[filt])
    props = (_PB * 5 + _LP) * 9 + _LC
    return b'LZMA' + struct.pack('<II', len(data), len(body)) + bytes([props]) + struct.pack('<I', _DICT) + body


def lzma_unpack(blob: bytes) -> bytes:
    assert blob[:4] == b'LZMA'
    size, csize = struct.unpack_from('<II', blob, 4)
    props = blob[12]
    dict_size = struct.unpack_from('<I', blob, 13)[0]
    lc = props % 9
    rest = props // 9
    lp, pb = rest % 5, rest // 5
    filt = {'id': lzma.FILTER_LZMA1, 'dict_size': max(dict_size, 4096), 'lc': lc, 'lp': lp, 'pb': pb}
    out = lzma.LZMADecompressor(lzma.FORMAT_RAW, filters=[filt]).decompress(blob[17:17 + csize])
    return out[:size]


# ------------------------------------------------------------------ run length coding of vis rows
def rle_row(row: bytes) -> bytes:
    """Valve's CompressVis: a zero byte is followed by the count (1..255) of zeros it stands for."""
    out = bytearray()
    i = 0
    while i < len(row):
        if row[i] != 0:
            out.append(row[i])
            i += 1
            continue
        n = 0
        while i < len(row) and row[i] == 0 and n < 255:
            n += 1
            i += 1
        out += bytes([0, n])
    return bytes(out)


# ------------------------------------------------------------------ world generation
def _f(rng: random.Random, lo: int = -64, hi: int = 64) -> float:
    """A float32-representable number (multiple of 1/8)."""
    return rng.randint(lo * 8, hi * 8) / 8.0


def make_world(layout: str, seed: int = 0, *, sprp: str | None = None, rich: bool = True) -> dict:
    """A populated, internally consistent index-based BSP description."""
    rng = random.Random(f'{layout}/{seed}')
    vit = layout == 'vitamin'
    w: dict = {'layout': layout}
    w['textures'] = ['TOOLS/TOOLSNODRAW', 'brick/wall01', 'Nature/water_a', 'wall01']
    w['texdata'] = [(_f(rng, 0, 1), _f(rng, 0, 1), _f(rng, 0, 1), i % 4, 64 << (i % 3), 32 << (i % 2)) for i in (0, 1, 2, 3)]
    w['texinfo'] = []
    for i in range(5):
        vals = [_f(rng) for _ in range(16)]
        w['texinfo'].append((vals, rng.choice([0, 0x1, 0x80 | 0x400, 0x10 | 0x8, 0x2000])), )
    w['texinfo'] = [(vals, fl, i % 4) for i, (vals, fl) in enumerate(w['texinfo'])]
    w['planes'] = []
    for i in range(7):
        axis = i % 3
        n = [0.0, 0.0, 0.0]
        if i < 6:
            n[axis] = 1.0 if i < 3 else -1.0
            typ = axis
        else:
            n = [0.5, 0.5, 0.75]
            typ = 5
        w['planes'].append((n[0], n[1], n[2], _f(rng, -512, 512), typ))
    w['vertexes'] = [(0.0, 0.0, 0.0)] + [(_f(rng), _f(rng), _f(rng)) for _ in range(8)]
    # edge 0 is the unused dummy; then distinct vertex pairs
    w['edges'] = [(0, 0), (1, 2), (2, 3), (3, 1), (4, 5), (5, 6), (6, 4), (7, 8)]
    w['surfedges'] = [1, 2, 3, -1, -3, -2, 4, 5, 6, 7, -7, -4]
    if vit:
        w['primverts'], w['primindices'], w['primitives'] = [], [], []
    else:
        w['primverts'] = [(_f(rng), _f(rng), _f(rng)) for _ in range(4)]
        w['primindices'] = [0, 1, 2, 2, 1, 3, 0]
        w['primitives'] = [(0, 0, 3, 0, 3), (1, 3, 4, 1, 3), (0, 0, 0, 3, 1)]

    def face(i: int, *, orig: int, texinfo: int, first_edge: int, num_edges: int, prim: tuple[int, int]) -> dict:
        return dict(
            plane=i % 7, side=bool(i & 1), on_node=bool(i & 2), first_edge=first_edge, num_edges=num_edges,
            texinfo=texinfo, dispinfo=-1 if i % 2 else 3, fog=-1 if i % 3 else 2,
            styles=bytes([0, 255, i, 255]), lightofs=-1 if i == 0 else 128 * i, area=_f(rng, 0, 900),
            lm_mins=(rng.randint(-40, 40), rng.randint(-40, 40)), lm_size=(rng.randint(0, 30), rng.randint(0, 30)),
            orig=orig, num_prims=prim[1] | (0x8000 if i % 2 == 0 else 0), first_prim=prim[0],
            smoothing=rng.choice([0, 1, 6, 0x80000001]), vflags=(i * 37) % 256,
        )
    if vit:
        w['orig_faces'] = []
        w['hdr_faces'] = []
        w['faces'] = [face(i, orig=0, texinfo=i % 5, first_edge=[0, 3, 6, 9][i], num_edges=3, prim=(0, 0)) for i in range(4)]
        w['faceids'] = [11, 12, 13, 14]
    else:
        # original faces carry no usable texinfo in real files (the reader overwrites it)
        w['orig_faces'] = [face(10 + i, orig=-1, texinfo=i % 5, first_edge=[0, 6][i % 2], num_edges=6, prim=(0, 0))
                           for i in range(3)]
        w['faces'] = [face(i, orig=[0, 0, 1, 2][i], texinfo=[0, 0, 1, 2][i] % 5, first_edge=[0, 3, 6, 9][i], num_edges=3,
                           prim=[(0, 2), (0, 0), (1, 2), (2, 1)][i]) for i in range(4)]
        # the HDR array parallels the LDR one (same count, same original faces, texinfo and Hammer IDs)
        w['hdr_faces'] = [face(20 + i, orig=[0, 0, 1, 2][i], texinfo=[0, 0, 1, 2][i] % 5, first_edge=[0, 3, 6, 9][i],
                               num_edges=3, prim=[(0, 1), (0, 0), (2, 1), (1, 1)][i]) for i in range(4)]
        # one Hammer ID per face, shared by index between the LDR and HDR arrays
        w['faceids'] = [101, 102, 103, 104]
    w['brushsides'] = [(i % 7, i % 5, 0, [0, 1, 0, 1, 2, 1][i % 6] if not vit else i % 2) for i in range(7)]
    w['brushsides_extra'] = [(i * 3) % 5 for i in range(7)]     # vitamin only
    w['brushes'] = [(0, 4, 1), (4, 3, 0x20 | 0x10000), (0, 0, 0)]
    w['leaffaces'] = [0, 1, 2, 3, 1]
    w['leafbrushes'] = [0, 1, 1, 2]
    nleaf = 5
    w['mindist'] = [65535, 10, 0, 300, 65535]
    w['leafs'] = []
    for i in range(nleaf):
        w['leafs'].append(dict(
            contents=[1, 0, 0x20, 0, 0][i], cluster=[-1, 0, 1, 2, 3][i], area=[0, 1, 1, 2, 1][i],
            flags=[0, 1, 4 | 2, 0, 1 | 4][i],
            mins=(rng.randint(-500, 0), rng.randint(-500, 0), rng.randint(-500, 0)),
            maxs=(rng.randint(1, 500), rng.randint(1, 500), rng.randint(1, 500)),
            first_face=[0, 0, 2, 4, 1][i], num_faces=[0, 2, 2, 1, 3][i],
            first_brush=[0, 0, 1, 3, 2][i], num_brushes=[1, 1, 2, 1, 0][i],
            water=[-1, -1, 0, -1, 1][i], ambient=bytes((i * 7 + k) % 256 for k in range(24)),
        ))
    w['water'] = [(_f(rng, 0, 100), _f(rng, -100, 0), 2), (_f(rng, 0, 100), _f(rng, -100, 0), 4)]
    w['nodes'] = []
    # node 0: children node 1, node 2; node 1: leafs 0,1 ; node 2: leaf 2, node 3 ; node 3: leafs 3,4
    kids = [(1, 2), (-1 - 0, -1 - 1), (-1 - 2, 3), (-1 - 3, -1 - 4)]
    for i in range(4):
        w['nodes'].append(dict(
            plane=(i * 2) % 7, children=kids[i],
            mins=(rng.randint(-900, 0), rng.randint(-900, 0), rng.randint(-900, 0)),
            maxs=(rng.randint(1, 900), rng.randint(1, 900), rng.randint(1, 900)),
            first_face=[0, 1, 0, 2][i], num_faces=[4, 2, 0, 2][i], area=[0, 1, 0, 2][i],
        ))
    ncl = 20 if rich else 4
    rowlen = (ncl + 7) // 8
    pat = [b'\x00' * rowlen, b'\xff' * rowlen, bytes([1] + [0] * (rowlen - 1)), bytes([0] * (rowlen - 1) + [8])]
    w['vis'] = dict(n=ncl, pvs=[pat[(i * 3) % 4] if i % 5 else bytes(rng.randrange(256) for _ in range(rowlen)) for i in range(ncl)],
                    pas=[pat[(i + 1) % 4] if i % 4 else bytes(rng.choice([0, 0, 255, 17]) for _ in range(rowlen)) for i in range(ncl)])
    w['models'] = [
        dict(mins=(-512.0, -512.0, -128.0), maxs=(512.0, 512.0, 256.0), origin=(0.0, 0.0, 0.0), headnode=0,
             first_face=0, num_faces=4,
             phys=([b'VPHY' + bytes(range(20)), b'VPHY\x01\x02'], 'solid {\n"index" "0"\n"mass" "1.5"\n}\n')),
        dict(mins=(-16.0, -16.0, 0.0), maxs=(16.0, 16.0, 64.0), origin=(64.0, 0.5, -8.0), headnode=3,
             first_face=2, num_faces=2, phys=None),
        dict(mins=(-8.0, -8.0, 0.0), maxs=(8.0, 8.0, 8.0), origin=(1.0, 2.0, 3.0), headnode=2,
             first_face=1, num_faces=0,
             phys=([b'VPHY' + b'\x00' * 9], 'solid {\n"index" "0"\n}\nfluid {\n"index" "0"\n"surfaceprop" "water"\n}\n')),
    ]
    sep = ',' if layout in ('v19', 'v20') else '\x1b'
    ents = [
        [('world_maxs', '512 512 256'), ('world_mins', '-512 -512 -128'), ('skyname', 'sky_day01_01'),
         ('mapversion', '77'), ('classname', 'worldspawn'), ('detailmaterial', 'detail/detailsprites')],
        [('origin', '64 0.5 -8'), ('model', '*1'), ('targetname', 'door'), ('classname', 'func_door'),
         ('OnOpen', sep.join(['relay', 'Trigger', '', '0.5', '-1'])),
         ('OnClose', sep.join(['!self', 'Kill', 'a b', '0', '1']))],
        [('classname', 'info_target'), ('targetname', 'tgt'), ('message', 'say \\"hi\\"\\n\\ttab'), ('angles', '0 90 0')],
        [('model', '*2'), ('classname', 'func_water_analog'), ('origin', '1 2 3')],
        [('classname', 'logic_relay'), ('targetname', 'relay'),
         ('OnTrigger', sep.join(['tgt', 'FireUser1', 'x', '1.25', '3']))],
    ]
    text = ''
    for kv in ents:
        text += '{\n' + ''.join(f'"{k}" "{v}"\n' for k, v in kv) + '}\n'
    w['ents'] = text.encode('ascii') + b'\x00'
    w['cubemaps'] = [(128, -64, 72, 0), (-300, 20, 8, 7), (0, 0, 0, 1)]
    w['overlays'] = []
    for i in range(3):
        w['overlays'].append(dict(
            id=100 + i, texinfo=[3, 4, 3][i], render_order=[0, 3, 1][i], faces=[[0], [1, 2, 3], []][i],
            uv=(_f(rng, 0, 1), _f(rng, 0, 1), _f(rng, 0, 1), _f(rng, 0, 1)),
            pts=[_f(rng) for _ in range(12)], origin=(_f(rng), _f(rng), _f(rng)), normal=(0.0, 0.0, 1.0),
            fade=(_f(rng, 0, 100), _f(rng, 100, 900)) if i else (-1.0, 0.0), levels=(i, 2 * i, 3 * i % 4, 1),
        ))
    buf = io.BytesIO()
    with zipfile.ZipFile(buf, 'w', zipfile.ZIP_STORED) as zf:
        for name, data in (('materials/maps/synth/cubemapdefault.vmt', b'"LightmappedGeneric"\n{\n}\n'),
                           ('scripts/soundscapes_synth.txt', bytes(rng.randrange(256) for _ in range(200)))):
            zi = zipfile.ZipInfo(name, (2020, 1, 2, 3, 4, 6))
            zf.writestr(zi, data)
    w['pak'] = buf.getvalue()
    # game lumps
    if sprp is None:
        sprp = {'v19': 'V5', 'v20': 'V_LIGHTMAP_v10', 'v21': 'V11', 'l4d2': 'V9', 'infra': 'V10', 'chaos': 'V_CHAOS_V13',
                'vitamin': 'V6'}[layout]
    props = []
    for i in range(3):
        props.append(dict(
            origin=(_f(rng), _f(rng), _f(rng)), angles=(_f(rng, 0, 359), _f(rng, 0, 359), _f(rng, 0, 359)),
            model=[0, 1, 0][i], first_leaf=[0, 2, 3][i], leaf_count=[2, 1, 2][i], solidity=[6, 0, 2][i],
            flags=[0x01, 0x10 | 0x04, 0x80][i], flags2=[0, 0x1, 0x4][i], skin=[0, 3, -1][i],
            min_fade=_f(rng, 0, 100), max_fade=_f(rng, 100, 900), lighting=(_f(rng), _f(rng), _f(rng)),
            fade_scale=[1.0, 0.5, -1.0][i], dx=(70 + i, 90 + i), cpu=(i, i + 1), gpu=(i + 2, i + 3),
            tint=(255 - i, 10 * i, 128), renderfx=[255, 0, 17][i], xbox=bool(i & 1),
            lm=(32 << i, 16 << i), scale=(1.5 + i, 0.5, 2.0 + i),
        ))
    w['sprp'] = dict(fmt=sprp, names=['models/props/a.mdl', 'models/props_c17/oildrum001.mdl'],
                     leafs=[1, 2, 3, 2, 4], props=props, flags=0)
    sprites = [[_f(rng, 0, 10) for _ in range(8)] for _ in range(2)]
    det = []
    for i in range(4):
        det.append(dict(
            origin=(_f(rng), _f(rng), _f(rng)), angles=(_f(rng, 0, 359), _f(rng, 0, 359), _f(rng, 0, 359)),
            model=[0, 1, 0, 1][i], leaf=[1, 2, 3, 4][i], lighting=(10 * i, 20, 30, 255), styles=(i * 65537, i),
            sway=[0, 5, 200, 9][i], shape_angle=[0, 0, 30, 45][i], shape_size=[0, 0, 12, 99][i],
            orient=[0, 1, 2, 0][i], type=[0, 1, 2, 3][i], scale=[1.0, 2.5, 0.75, 1.25][i],
        ))
    w['dprp'] = dict(names=['models/detail/grass.mdl'], sprites=sprites, props=det, version=4, flags=0)
    if layout == 'vitamin':
        # no model detail prop beyond the one name
        pass
    # (flags other than bit 0 and a version above 32767: the directory fields are unsigned 16 bit)
    w['other_game_lumps'] = [(b'dplt', 0x8002, 40000, bytes(rng.randrange(256) for _ in range(37)))]
    # opaque lumps (no structured view): name -> (version, bytes)
    w['opaque'] = {
        'LIGHTING': (0x00020001, bytes(rng.randrange(256) for _ in range(301))),
        'OCCLUSION': (2, struct.pack('<iii', 0, 0, 0)),
        'WORLDLIGHTS': (1 if layout != 'v19' else 0, bytes(rng.randrange(256) for _ in range(88))),
        'AREAS': (0, struct.pack('<4i', 0, 0, 0, 1)),
        'AREAPORTALS': (0, bytes(12)),
        'DISPINFO': (0, bytes(rng.randrange(256) for _ in range(176))),
        'DISP_VERTS': (0, bytes(rng.randrange(256) for _ in range(500))),
        'LEAF_AMBIENT_LIGHTING': (1, bytes(rng.randrange(256) for _ in range(28 * 3))),
        'LEAF_AMBIENT_INDEX': (0, bytes(rng.randrange(256) for _ in range(4 * nleaf))),
        'LIGHTING_HDR': (1, b''),
        'MAP_FLAGS': (0, struct.pack('<I', 3)),
        'VERTNORMALS': (0, b'\x00\x00\x80\x3f' * 3),
        'PHYSDISP': (0, b'\x00\x00'),
    }
    w['lump_versions'] = {'FACES': 1, 'ORIGINALFACES': 0, 'LEAFS': 0 if layout == 'v19' else (2 if layout == 'chaos' else 1),
                          'FACES_HDR': 1, 'GAME_LUMP': 0}
    w['map_revision'] = 0x01020304 + seed
    return w


# ------------------------------------------------------------------ encoders
def _face_bytes(layout: str, f: dict) -> bytes:
    if layout == 'vitamin':
        return struct.pack('<5i4iB3x', f['plane'], f['texinfo'], f['dispinfo'], f['first_edge'], f['num_edges'],
                           f['lm_mins'][0], f['lm_mins'][1], f['lm_size'][0], f['lm_size'][1], f['vflags'])
    if layout == 'chaos':
        return (struct.pack('<IBBxx', f['plane'], f['side'], f['on_node'])
                + struct.pack('<5i', f['first_edge'], f['num_edges'], f['texinfo'], f['dispinfo'], f['fog'])
                + f['styles'] + struct.pack('<if', f['lightofs'], f['area'])
                + struct.pack('<5i', f['lm_mins'][0], f['lm_mins'][1], f['lm_size'][0], f['lm_size'][1], f['orig'])
                + struct.pack('<3I', f['num_prims'], f['first_prim'], f['smoothing']))
    return (struct.pack('<HBBi4h', f['plane'], f['side'], f['on_node'], f['first_edge'], f['num_edges'], f['texinfo'],
                        f['dispinfo'], f['fog'])
            + f['styles'] + struct.pack('<if', f['lightofs'], f['area'])
            + struct.pack('<5i', f['lm_mins'][0], f['lm_mins'][1], f['lm_size'][0], f['lm_size'][1], f['orig'])
            + struct.pack('<HHI', f['num_prims'], f['first_prim'], f['smoothing']))


def _sprp_bytes(layout: str, sp: dict) -> bytes:
    fmt = sp['fmt']
    ver, size = SPRP[fmt]
    light = fmt.startswith('V_LIGHTMAP')
    sdk2013 = fmt.startswith('V_LIGHTMAP_v')
    eff = 7 if light else ver
    out = bytearray(struct.pack('<i', len(sp['names'])))
    for n in sp['names']:
        out += n.encode('ascii').ljust(128, b'\0')
    out += struct.pack('<i', len(sp['leafs']))
    leaf_fmt = '<I' if layout == 'chaos' else '<H'
    for lf in sp['leafs']:
        out += struct.pack(leaf_fmt, lf)
    out += struct.pack('<i', len(sp['props']))
    for p in sp['props']:
        rec = bytearray()
        rec += struct.pack('<3f3fH', *p['origin'], *p['angles'], p['model'])
        rec += struct.pack('<HHBB', p['first_leaf'], p['leaf_count'], p['solidity'], 0 if light else p['flags'])
        rec += struct.pack('<iff3f', p['skin'], p['min_fade'], p['max_fade'], *p['lighting'])
        if eff >= 5:
            rec += struct.pack('<f', p['fade_scale'])
        if eff in (6, 7):
            rec += struct.pack('<HH', *p['dx'])
        if eff >= 8:
            rec += struct.pack('<BBBB', p['cpu'][0], p['cpu'][1], p['gpu'][0], p['gpu'][1])
        if light:
            rec += struct.pack('<IHH', p['flags'] | (p['flags2'] << 8), p['lm'][0], p['lm'][1])
        if eff >= 7 and not sdk2013:
            rec += struct.pack('<BBBB', p['tint'][0], p['tint'][1], p['tint'][2], p['renderfx'])
        if eff >= 9 and not light:
            rec += struct.pack('<Bxxx', 1 if p['xbox'] else 0)
        if eff >= 10 or fmt == 'V_LIGHTMAP_MESA':
            rec += struct.pack('<I', p['flags2'])
        if fmt == 'V_CHAOS_V13':
            rec += struct.pack('<fff', *p['scale'])
        elif eff >= 11:
            rec += struct.pack('<f', p['scale'][0])
        assert len(rec) == size, (fmt, len(rec), size)
        out += rec
    return bytes(out)


def _dprp_bytes(dp: dict) -> bytes:
    out = bytearray(struct.pack('<i', len(dp['names'])))
    for n in dp['names']:
        out += n.encode('ascii').ljust(128, b'\0')
    out += struct.pack('<i', len(dp['sprites']))
    for s in dp['sprites']:
        out += struct.pack('<8f', *s)
    out += struct.pack('<i', len(dp['props']))
    for p in dp['props']:
        # DetailObjectLump_t, 52 bytes
        out += struct.pack('<3f3fHH4BI', *p['origin'], *p['angles'], p['model'], p['leaf'], *p['lighting'], p['styles'][0])
        out += struct.pack('<BBBBB3xB3xf', p['styles'][1], p['sway'], p['shape_angle'], p['shape_size'], p['orient'],
                           p['type'], p['scale'])
    return bytes(out)


def encode_lumps(w: dict) -> dict:
    """lump name -> raw (uncompressed) bytes for every structured lump of the world."""
    lay = w['layout']
    vit, chaos = lay == 'vitamin', lay == 'chaos'
    L: dict = {}
    L['ENTITIES'] = w['ents']
    L['PLANES'] = b''.join(struct.pack('<4fi', *p) for p in w['planes'])
    strdata = bytearray()
    table = []
    for t in w['textures']:
        table.append(len(strdata))
        strdata += t.encode('ascii') + b'\0'
    L['TEXDATA_STRING_DATA'] = bytes(strdata)
    L['TEXDATA_STRING_TABLE'] = b''.join(struct.pack('<i', o) for o in table)
    if vit:
        L['TEXDATA'] = b''.join(struct.pack('<3f3i', *t) for t in w['texdata'])
    else:
        L['TEXDATA'] = b''.join(struct.pack('<3f5i', t[0], t[1], t[2], t[3], t[4], t[5], t[4], t[5]) for t in w['texdata'])
    L['TEXINFO'] = b''.join(struct.pack('<16fii', *vals, fl, td) for vals, fl, td in w['texinfo'])
    L['VERTEXES'] = b''.join(struct.pack('<3f', *v) for v in w['vertexes'])
    L['EDGES'] = b''.join(struct.pack('<II' if chaos else '<HH', a, b) for a, b in w['edges'])
    L['SURFEDGES'] = b''.join(struct.pack('<i', s) for s in w['surfedges'])
    L['PRIMVERTS'] = b''.join(struct.pack('<3f', *v) for v in w['primverts'])
    L['PRIMINDICES'] = b''.join(struct.pack('<I' if chaos else '<H', i) for i in w['primindices'])
    pfmt = '<IIIII' if chaos else ('<IIIHH' if lay == 'infra' else '<HHHHH')
    L['PRIMITIVES'] = b''.join(struct.pack(pfmt, *p) for p in w['primitives'])
    L['FACES'] = b''.join(_face_bytes(lay, f) for f in w['faces'])
    L['ORIGINALFACES'] = b''.join(_face_bytes(lay, f) for f in w['orig_faces'])
    L['FACES_HDR'] = b''.join(_face_bytes(lay, f) for f in w['hdr_faces'])
    L['FACEIDS'] = b''.join(struct.pack('<I' if chaos else '<H', i) for i in w['faceids'])
    if vit:
        L['BRUSHSIDES'] = b''.join(struct.pack('<IIhBB', p, t, d, b, x)
                                   for (p, t, d, b), x in zip(w['brushsides'], w['brushsides_extra']))
    elif chaos:
        L['BRUSHSIDES'] = b''.join(struct.pack('<IiiHxx', p, t, d, b) for p, t, d, b in w['brushsides'])
    else:
        L['BRUSHSIDES'] = b''.join(struct.pack('<HhhH', p, t, d, b) for p, t, d, b in w['brushsides'])
    L['BRUSHES'] = b''.join(struct.pack('<iii', *b) for b in w['brushes'])
    L['LEAFFACES'] = b''.join(struct.pack('<I' if chaos else '<H', i) for i in w['leaffaces'])
    L['LEAFBRUSHES'] = b''.join(struct.pack('<I' if chaos else '<H', i) for i in w['leafbrushes'])
    L['LEAFMINDISTTOWATER'] = b''.join(struct.pack('<H', i) for i in w['mindist'])
    leafs = bytearray()
    for lf in w['leafs']:
        if vit:
            leafs += struct.pack('<ihh6I4HhBx', lf['contents'], lf['cluster'], lf['area'],
                                 *[m & 0xFFFFFFFF for m in lf['mins']], *[m & 0xFFFFFFFF for m in lf['maxs']],
                                 lf['first_face'], lf['num_faces'], lf['first_brush'], lf['num_brushes'], lf['water'], lf['flags'])
        elif chaos:
            leafs += struct.pack('<iii6f4Ii', lf['contents'], lf['cluster'], (lf['area'] << 17) | lf['flags'],
                                 *[float(m) + 0.5 for m in lf['mins']], *[float(m) + 0.25 for m in lf['maxs']],
                                 lf['first_face'], lf['num_faces'], lf['first_brush'], lf['num_brushes'], lf['water'])
        else:
            leafs += struct.pack('<ihh6h4Hh', lf['contents'], lf['cluster'], (lf['area'] << 7) | lf['flags'],
                                 *lf['mins'], *lf['maxs'],
                                 lf['first_face'], lf['num_faces'], lf['first_brush'], lf['num_brushes'], lf['water'])
            if lay == 'v19':
                leafs += lf['ambient']
            leafs += b'\0\0'
    L['LEAFS'] = bytes(leafs)
    L['LEAFWATERDATA'] = b''.join(struct.pack('<ffI' if chaos else '<ffH2x', *x) for x in w['water'])
    nodes = bytearray()
    for nd in w['nodes']:
        if chaos:
            nodes += struct.pack('<iii6fIIhxx', nd['plane'], nd['children'][0], nd['children'][1],
                                 *[float(m) + 0.5 for m in nd['mins']], *[float(m) + 0.75 for m in nd['maxs']],
                                 nd['first_face'], nd['num_faces'], nd['area'])
        elif vit:
            nodes += struct.pack('<iii6iHHh2x', nd['plane'], nd['children'][0], nd['children'][1], *nd['mins'], *nd['maxs'],
                                 nd['first_face'], nd['num_faces'], nd['area'])
        else:
            nodes += struct.pack('<iii6hHHh2x', nd['plane'], nd['children'][0], nd['children'][1], *nd['mins'], *nd['maxs'],
                                 nd['first_face'], nd['num_faces'], nd['area'])
    L['NODES'] = bytes(nodes)
    if w['vis'] is None:
        L['VISIBILITY'] = b''
    else:
        n = w['vis']['n']
        head = 4 + 8 * n
        body = bytearray()
        offs = []
        for i in range(n):
            a = head + len(body)
            body += rle_row(w['vis']['pvs'][i])
            b = head + len(body)
            body += rle_row(w['vis']['pas'][i])
            offs.append((a, b))
        L['VISIBILITY'] = struct.pack('<i', n) + b''.join(struct.pack('<ii', a, b) for a, b in offs) + bytes(body)
    models = bytearray()
    phys = bytearray()
    for i, m in enumerate(w['models']):
        models += struct.pack('<9fiii', *m['mins'], *m['maxs'], *m['origin'], m['headnode'], m['first_face'], m['num_faces'])
        if m['phys'] is not None:
            solids, kv = m['phys']
            kvb = kv.encode('ascii') + b'\0'
            phys += struct.pack('<iiii', i, sum(len(s) + 4 for s in solids), len(kvb), len(solids))
            for s in solids:
                phys += struct.pack('<i', len(s)) + s
            phys += kvb
    phys += struct.pack('<iiii', -1, -1, 0, 0)
    L['MODELS'] = bytes(models)
    L['PHYSCOLLIDE'] = bytes(phys)
    L['CUBEMAPS'] = b''.join(struct.pack('<4i', *c) for c in w['cubemaps'])
    ov = bytearray()
    fades = bytearray()
    levels = bytearray()
    for o in w['overlays']:
        ov += struct.pack('<ihH', o['id'], o['texinfo'], (o['render_order'] << 14) | len(o['faces']))
        ov += b''.join(struct.pack('<i', f) for f in o['faces']) + bytes(4 * (64 - len(o['faces'])))
        ov += struct.pack('<4f', *o['uv']) + struct.pack('<12f', *o['pts']) + struct.pack('<3f', *o['origin'])
        ov += struct.pack('<3f', *o['normal'])
        fades += struct.pack('<ff', *o['fade'])
        levels += struct.pack('<4B', *o['levels'])
    L['OVERLAYS'] = bytes(ov)
    L['OVERLAY_FADES'] = bytes(fades)
    L['OVERLAY_SYSTEM_LEVELS'] = bytes(levels)
    L['PAKFILE'] = w['pak']
    return L


# srctools recompresses with a 16 MiB dictionary (about 15 ms per lump), so the default compressed
# variant compresses a representative subset: main lumps of views, 'extra' lumps of views, opaque lumps
COMPRESS_SOME = frozenset({'ENTITIES', 'FACES', 'LEAFFACES', 'VISIBILITY', 'LIGHTING'})
COMPRESS_GAME_SOME = frozenset({b'sprp', b'dplt'})     # dplt is the last game lump: the dummy entry matters


def build(w: dict, *, compress=False, game_sep: bool = True, dummy_game_lump: bool = True) -> bytes:
    """Serialise the world to the bytes of a .bsp file.

    compress: False | True (the COMPRESS_SOME subset) | 'all' (every non-empty lump except PAKFILE and
    the game-lump directory, and every game lump).  A compressed game lump has flag bit 0, its length
    field holds the uncompressed size, and a trailing id-0 directory entry marks the end of the last one.
    game_sep: one zero byte between consecutive game lumps (what srctools itself writes)."""
    lay = w['layout']
    raw = encode_lumps(w)
    versions = dict(w['lump_versions'])
    for name, (ver, data) in w['opaque'].items():
        raw[name] = data
        versions[name] = ver
    game = [(b'sprp', w['sprp']['flags'], SPRP[w['sprp']['fmt']][0], _sprp_bytes(lay, w['sprp'])),
            (b'dprp', w['dprp']['flags'], w['dprp']['version'], _dprp_bytes(w['dprp']))]
    game += list(w['other_game_lumps'])
    header_size = 8 + 64 * 16 + 4
    out = bytearray(header_size)
    table = {}
    for idx in range(64):
        name = LUMP_NAMES[idx]
        if name == 'GAME_LUMP':
            while len(out) % 4:
                out.append(0)
            start = len(out)
            n_entries = len(game) + (1 if (compress and dummy_game_lump) else 0)
            dir_size = 4 + 16 * n_entries
            pos = start + dir_size
            direc = bytearray(struct.pack('<i', n_entries))
            blob = bytearray()
            for k, (gid, flags, ver, data) in enumerate(game):
                comp_this = compress == 'all' or (compress and gid in COMPRESS_GAME_SOME)
                payload = lzma_pack(data) if comp_this else data
                fl = (flags | 1) if comp_this else flags
                direc += struct.pack('<4sHHii', gid[::-1], fl, ver, pos + len(blob), len(data))
                blob += payload
                if game_sep and k != len(game) - 1:
                    blob.append(0)
            if compress and dummy_game_lump:
                direc += struct.pack('<4sHHii', b'\0\0\0\0', 0, 0, pos + len(blob), 0)
            out += direc + blob
            table[idx] = (start, len(out) - start, 0, 0)
            continue
        data = raw.get(name, b'')
        ver = versions.get(name, 0)
        if not data:
            table[idx] = (0, 0, ver, 0)
            continue
        while len(out) % 4:
            out.append(0)
        if name != 'PAKFILE' and (compress == 'all' or (compress and name in COMPRESS_SOME)):
            payload = lzma_pack(data)
            table[idx] = (len(out), len(payload), ver, len(data))
        else:
            payload = data
            table[idx] = (len(out), len(payload), ver, 0)
        out += payload
    magic = b'FART' if lay == 'vitamin' else b'VBSP'
    struct.pack_into('<4si', out, 0, magic, w.get('version_word', VERSION_OF[lay]))
    for idx in range(64):
        off, ln, ver, four = table[idx]
        if lay == 'l4d2':
            struct.pack_into('<4i', out, 8 + 16 * idx, ver, off, ln, four)
        else:
            struct.pack_into('<4i', out, 8 + 16 * idx, off, ln, ver, four)
    struct.pack_into('<i', out, 8 + 64 * 16, w['map_revision'])
    return bytes(out)


def expected_raw(w: dict) -> dict:
    """lump name -> decompressed bytes / versions the reader must see (for the harness's own sanity check)."""
    raw = encode_lumps(w)
    for name, (ver, data) in w['opaque'].items():
        raw[name] = data
    return raw


def empty_world(layout: str) -> dict:
    """A world with a worldspawn entity, one model/node/leaf/plane and nothing else (base for C11)."""
    w = make_world(layout, 0)
    w['textures'], w['texdata'], w['texinfo'] = [], [], []
    w['planes'] = [(0.0, 0.0, 1.0, 0.0, 2)]
    w['vertexes'] = [(0.0, 0.0, 0.0)]
    w['edges'] = [(0, 0)]
    w['surfedges'] = []
    w['primverts'], w['primindices'], w['primitives'] = [], [], []
    w['orig_faces'], w['faces'], w['hdr_faces'], w['faceids'] = [], [], [], []
    w['brushsides'], w['brushsides_extra'], w['brushes'] = [], [], []
    w['leaffaces'], w['leafbrushes'], w['mindist'] = [], [], [65535]
    w['leafs'] = [dict(contents=0, cluster=-1, area=0, flags=0, mins=(0, 0, 0), maxs=(0, 0, 0), first_face=0, num_faces=0,
                       first_brush=0, num_brushes=0, water=-1, ambient=bytes(24))]
    w['water'] = []
    w['nodes'] = [dict(plane=0, children=(-1, -1), mins=(0, 0, 0), maxs=(0, 0, 0), first_face=0, num_faces=0, area=0)]
    w['vis'] = None
    w['models'] = [dict(mins=(0.0, 0.0, 0.0), maxs=(0.0, 0.0, 0.0), origin=(0.0, 0.0, 0.0), headnode=0, first_face=0,
                        num_faces=0, phys=None)]
    w['ents'] = b'{\n"classname" "worldspawn"\n}\n\x00'
    w['cubemaps'], w['overlays'] = [], []
    w['sprp']['props'], w['sprp']['names'], w['sprp']['leafs'] = [], [], []
    w['dprp']['props'], w['dprp']['names'], w['dprp']['sprites'] = [], [], []
    w['other_game_lumps'] = []
    w['opaque'] = {}
    return w


# ------------------------------------------------------------------ independent lump extractor
def read_lumps(data: bytes) -> dict:
    """lump name -> (version, decompressed bytes) of a .bsp file, decoded without srctools."""
    magic, version = struct.unpack_from('<4si', data, 0)
    assert magic in (b'VBSP', b'FART'), magic
    l4d2 = version == 21 and data[8:12] == b'\0\0\0\0'
    out = {}
    for idx in range(64):
        a, b, c, d = struct.unpack_from('<4i', data, 8 + 16 * idx)
        if l4d2:
            ver, off, ln, four = a, b, c, d
        else:
            off, ln, ver, four = a, b, c, d
        blob = data[off:off + ln]
        if four > 0 and blob[:4] == b'LZMA':
            blob = lzma_unpack(blob)
        out[LUMP_NAMES[idx]] = (ver, blob)
    out['_version'] = version
    out['_revision'] = struct.unpack_from('<i', data, 8 + 64 * 16)[0]
    return out


def unrle_row(blob: bytes, start: int, nbytes: int) -> bytes:
    """Independent decoder of one coded vis row starting at `start` (Valve's DecompressVis)."""
    out = bytearray()
    i = start
    while len(out) < nbytes:
        if blob[i]:
            out.append(blob[i])
            i += 1
        else:
            out += bytes(blob[i + 1])
            i += 2
    return bytes(out[:nbytes])


def decode_file(data: bytes) -> dict:
    """The whole header as the file states it, decoded without srctools: magic, version word, map revision,
    per lump (version, compressed flag, decompressed bytes), and the game-lump directory (id, flags, version,
    decompressed bytes) in file order."""
    magic, version = struct.unpack_from('<4si', data, 0)
    lumps = read_lumps(data)
    out = {'magic': magic.decode('ascii', 'replace'), 'version': version, 'revision': lumps['_revision'],
           'l4d2': version == 21 and data[8:12] == b'\0\0\0\0', 'lumps': {}, 'game': []}
    for idx in range(64):
        a, b, c, d = struct.unpack_from('<4i', data, 8 + 16 * idx)
        four = d
        name = LUMP_NAMES[idx]
        ver, blob = lumps[name]
        out['lumps'][name] = {'ver': ver, 'comp': four > 0, 'data': blob}
    gver, gdir = lumps['GAME_LUMP']
    goff = out['lumps']['GAME_LUMP']
    # absolute file offsets: find where the directory starts in the file
    idx = LUMP_INDEX['GAME_LUMP']
    a, b, c, d = struct.unpack_from('<4i', data, 8 + 16 * idx)
    start, length = (b, c) if out['l4d2'] else (a, b)
    if length >= 4:
        count = struct.unpack_from('<i', data, start)[0]
        ents = [struct.unpack_from('<4sHHii', data, start + 4 + 16 * k) for k in range(count)]
        for k, (gid, flags, ver, off, ln) in enumerate(ents):
            if gid == b'\0\0\0\0':
                continue
            if flags & 1:
                nxt = [e[3] for e in ents[k + 1:] if e[3] > off]
                end = min(nxt) if nxt else start + length
                blob = data[off:end]
                blob = lzma_unpack(blob) if blob[:4] == b'LZMA' else blob
            else:
                blob = data[off:off + ln]
            out['game'].append({'id': gid[::-1].decode('ascii', 'replace'), 'flags': flags, 'ver': ver, 'data': blob})
    return out
