#!/usr/bin/env python3
"""Prints the prompt for a fresh sub-agent that makes a property-PRESERVING change (false-alarm probe)."""
import json, sys
pid, wt = sys.argv[1], sys.argv[2]
hint = sys.argv[3] if len(sys.argv) > 3 else ''
for l in open('/verif/properties.jsonl'):
    p = json.loads(l)
    if p['id'] == pid:
        break
print(f"""You are probing a verification suite for FALSE ALARMS. Work ONLY inside your own scratch git worktree of the Python library TeamSpen210/srctools at {wt} (read {wt}/RUN.md for how to run code and tests against this tree). Do not look at or touch /repo, /verif or any other directory under /tmp/mut.

A semantic property of the library (id {pid}): {p['title']}
Statement: {p['statement']}
Quantified over: {p['quantifier']['text']}
Anchored in: {', '.join(p['anchors']['files'])}; mechanisms: {'; '.join(m['name'] + ' (' + m.get('where', '') + ')' for m in p['anchors']['mechanism'])}

Task: make ONE realistic change to the library source under {wt}/src/srctools, in the code this property is anchored in, that a maintainer could plausibly commit and that CHANGES OBSERVABLE BEHAVIOUR OR INTERNAL STRUCTURE while the property above STILL HOLDS in every case it quantifies over - read the statement literally and make sure nothing it promises is weakened. Good candidates: a different but equally valid choice where the statement leaves freedom (which unused value is picked, ordering the statement does not fix, layout/placement/whitespace/formatting that the reader accepts equally, an internal cache or representation, an extra validation that only rejects inputs the statement does not cover, different error types or messages, a performance restructuring of the algorithm), or a behaviour change in a neighbouring feature the statement does not mention. Not acceptable: a no-op, a comment/rename-only change, or anything that makes some promised case fail. The repository's existing tests for the touched modules should still pass (if a test pins the exact detail you changed, pick another change). {hint}

Deliver, inside {wt}:
1. the source change itself (leave it applied in the worktree, uncommitted);
2. `demo.py` - a small standalone program that exits 0 on the ORIGINAL code and exits 1 WITH your change, showing through the public API (or, for internal restructurings, through an internal attribute) that something observable really changed;
3. `holds.py` - a small standalone program that exercises the property's promise around your change (the cases nearest to what you touched) and exits 0 both on the original and with your change;
4. `BENIGN.md` - what changed, why the statement still holds word for word, which existing tests you ran (command from RUN.md) and their result.
Verify everything yourself in both directions (RUN.md shows how to run against the pristine copy `.orig_src`; never use git stash/checkout/reset - git metadata is shared with other worktrees). Keep the diff small (a few to a few dozen lines). Finish with a short summary.""")
