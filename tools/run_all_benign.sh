#!/bin/sh
# Runs every property-preserving change under benign/ against its property's quick check; every one
# must leave the check quiet (exit 0).  usage: run_all_benign.sh [parallelism]
cd "$(dirname "$0")/.."
par=${1:-3}
ls -d benign/*/ | while read d; do
  name=$(basename "$d"); prop=${name%%-*}
  echo "$name $prop"
done > /tmp/benign_list.$$
cat /tmp/benign_list.$$ | xargs -P "$par" -L 1 sh -c '
  name=$0; prop=$1
  tools/try_mutant.sh benign/$name/patch.diff $prop > /tmp/benign_$name.out 2>&1
  rc=$?
  echo "BENIGN $name prop=$prop rc=$rc $( [ $rc -eq 0 ] && echo QUIET || ( [ $rc -eq 3 ] && echo PATCH-DOES-NOT-APPLY || echo ALARM ) )"
  rm -f /tmp/benign_$name.out
'
rm -f /tmp/benign_list.$$
