#!/bin/sh
# usage: accept.sh CXX [seeds...]  - runs the quick check for the given seeds (default 0 1 2), validates
# the evidence file against the schema, prints wall time and verdict lines.
p=$1; shift
seeds=${*:-"0 1 2"}
cd /verif
for s in $seeds; do
  start=$(date +%s)
  VERIF_SEED=$s timeout 1500 ./check "$p" --tier quick > /tmp/accept_$p.out 2>&1
  rc=$?
  end=$(date +%s)
  echo "== $p seed=$s rc=$rc wall=$((end-start))s"
  grep -E "^(VIOLATION|KNOWN-FINDING|OK|MACHINERY)" /tmp/accept_$p.out | cut -c1-220 | sort | uniq -c | head -20
  [ $rc -ne 0 ] && tail -n 15 /tmp/accept_$p.out
  python3-vt - <<PY
import json, jsonschema
try:
    ev = json.load(open('/verif/evidence/$p.json'))
    jsonschema.validate(ev, json.load(open('/root/.vp/EVIDENCE.schema.json')))
    c = ev['coverage']
    print('   evidence ok: level', ev['level'], 'states', c.get('states'), 'transitions', c.get('transitions'), 'traces', c.get('traces_validated_against_impl'), 'samples', len(c.get('samples', [])), 'seed', ev['seed'], 'wall', ev['wall_s'])
except Exception as e:
    print('   EVIDENCE INVALID:', str(e)[:300])
PY
done
rm -f /tmp/accept_$p.out
