#!/bin/sh
# usage: eval_benign.sh <worktree-name> <PROP> <slug>
# A property-PRESERVING change made by a fresh sub-agent (false-alarm probe): confirms that behaviour
# really changed (demo.py) and that the property's promise still holds (holds.py), runs the property's
# quick check against it (must exit 0) and stores everything under benign/<PROP>-<slug>/.
n=$1; prop=$2; slug=$3
wt=/tmp/mut/$n
out=/verif/benign/$prop-$slug
mkdir -p "$out"
git -C "$wt" diff -- src > "$out/patch.diff"
for f in demo.py holds.py BENIGN.md; do cp "$wt/$f" "$out/$f" 2>/dev/null; done
cd "$wt"
run() { PYTHONPATH=$wt/.shim:$wt/$1 PYTHONDONTWRITEBYTECODE=1 timeout 300 /venv/bin/python $2 > /dev/null 2>&1; echo $?; }
d_mut=$(run src demo.py); d_orig=$(run .orig_src demo.py); h_mut=$(run src holds.py); h_orig=$(run .orig_src holds.py)
echo "demo: change rc=$d_mut orig rc=$d_orig; holds: change rc=$h_mut orig rc=$h_orig; patch lines: $(wc -l < "$out/patch.diff")"
cd /verif
timeout 1800 tools/try_mutant.sh "$out/patch.diff" "$prop" > /tmp/mut/$n.res 2>&1; rc=$?
echo "check rc=$rc (0 = quiet, as it should be)"
grep -E "new mismatch group|MACHINERY" /tmp/mut/$n.res | cut -c1-200 | head -12
groups=$(grep -E "new mismatch group" /tmp/mut/$n.res | sed 's/.*group: //' | tr '\n' ';' | cut -c1-600)
python3 - "$out" "$prop" "$d_mut" "$d_orig" "$h_mut" "$h_orig" "$rc" "$groups" <<'PY'
import json, sys
out, prop, d_mut, d_orig, h_mut, h_orig, rc, groups = sys.argv[1:9]
meta = {"property": prop, "origin": "fresh sub-agent given only the property text and a scratch worktree, asked for a property-preserving change",
        "confirmed": f"demo.py exit {d_mut} with the patch / {d_orig} pristine (behaviour changed); holds.py exit {h_mut} / {h_orig} (promise intact)",
        "ran": f"tools/try_mutant.sh benign/{out.split('/')[-1]}/patch.diff {prop}",
        "check_exit": int(rc), "quiet": int(rc) == 0, "alarm_groups": groups}
json.dump(meta, open(out + '/meta.json', 'w'), indent=1)
PY
