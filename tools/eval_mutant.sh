#!/bin/sh
# usage: eval_mutant.sh <worktree-name> <PROP> <slug>
# Confirms a sub-agent's mutant (demo fails with the change, passes on the pristine copy), runs the
# property's quick check against it, and stores patch/demo/notes/meta under seeded/<PROP>-<slug>/.
n=$1; prop=$2; slug=$3
wt=/tmp/mut/$n
out=/verif/seeded/$prop-$slug
mkdir -p "$out"
git -C "$wt" diff -- src > "$out/patch.diff"
cp "$wt/demo.py" "$out/demo.py" 2>/dev/null
cp "$wt/MUTANT.md" "$out/MUTANT.md" 2>/dev/null
cd "$wt"
PYTHONPATH=$wt/.shim:$wt/src PYTHONDONTWRITEBYTECODE=1 timeout 300 /venv/bin/python demo.py > /tmp/mut/$n.demo_mut 2>&1; rc_mut=$?
PYTHONPATH=$wt/.shim:$wt/.orig_src PYTHONDONTWRITEBYTECODE=1 timeout 300 /venv/bin/python demo.py > /tmp/mut/$n.demo_orig 2>&1; rc_orig=$?
echo "demo: with change rc=$rc_mut, original rc=$rc_orig; patch lines: $(wc -l < "$out/patch.diff")"
cd /verif
timeout 1800 tools/try_mutant.sh "$out/patch.diff" "$prop" > /tmp/mut/$n.res 2>&1; rc=$?
echo "check rc=$rc"
grep -E "new mismatch group|KNOWN-FINDING|MACHINERY" /tmp/mut/$n.res | cut -c1-200 | head -12
groups=$(grep -E "new mismatch group" /tmp/mut/$n.res | sed 's/.*group: //' | tr '\n' ';' | cut -c1-600)
python3 - "$out" "$prop" "$rc_mut" "$rc_orig" "$rc" "$groups" <<'PY'
import json, sys
out, prop, rc_mut, rc_orig, rc, groups = sys.argv[1:7]
meta = {"property": prop, "origin": "fresh sub-agent given only the property text and a scratch worktree",
        "breaks": "see MUTANT.md", "needs": "see MUTANT.md",
        "confirmed": f"demo.py exit {rc_mut} with the patch, exit {rc_orig} on the pristine tree",
        "ran": f"tools/try_mutant.sh seeded/{out.split('/')[-1]}/patch.diff {prop}",
        "check_exit": int(rc), "detected": int(rc) == 1, "detected_by": groups}
json.dump(meta, open(out + '/meta.json', 'w'), indent=1)
PY
