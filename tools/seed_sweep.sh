#!/bin/sh
# usage: seed_sweep.sh "<seeds>" [props...]  - quick tier over several seeds; prints one line per run
seeds=$1; shift
props=${*:-$(cat READY)}
for s in $seeds; do
  for p in $props; do
    start=$(date +%s)
    VERIF_SEED=$s VERIF_EVIDENCE_DIR=./sweep_ev VERIF_REPLAY_DIR=./sweep_rp timeout 1800 ./check $p --tier quick > sweep_$p_$s.out 2>&1
    rc=$?
    echo "SWEEP prop=$p seed=$s rc=$rc wall=$(( $(date +%s) - start ))s $(grep -c '^VIOLATION' sweep_$p_$s.out) violations"
    [ $rc -ne 0 ] && { grep -E "new mismatch group|MACHINERY" sweep_$p_$s.out | head -8; tail -n 5 sweep_$p_$s.out; }
  done
done
