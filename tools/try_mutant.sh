#!/bin/sh
# usage: try_mutant.sh <patch.diff> <PROP> [tier]   - runs ./check PROP against a scratch copy of
# /repo/src with the patch applied (VERIF_SRC), evidence/replays redirected to the scratch dir.
# exit code = the check's exit code (1 = mutant detected).
patch=$(realpath "$1"); prop=$2; tier=${3:-quick}
d=$(mktemp -d /tmp/mutsrc.XXXXXX)
cp -r /repo/src "$d/src"
find "$d/src" -name __pycache__ -prune -exec rm -rf {} + 2>/dev/null
(cd "$d" && patch -s -p1 < "$patch") || { echo "patch failed"; rm -rf "$d"; exit 3; }
cd /verif
VERIF_SRC="$d/src" VERIF_EVIDENCE_DIR="$d/ev" VERIF_REPLAY_DIR="$d/rp" ./check "$prop" --tier "$tier" > "$d/out.txt" 2>&1; rc=$?; tail -15 "$d/out.txt"
rm -rf "$d"
exit $rc
