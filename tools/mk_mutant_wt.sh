#!/bin/sh
# usage: mk_mutant_wt.sh <name>   -> creates /tmp/mut/<name> (git worktree of /repo HEAD) + import shim
set -e
d=/tmp/mut/$1
mkdir -p /tmp/mut
git -C /repo worktree add -q --detach "$d" HEAD
mkdir -p "$d/.shim"
cp -r "$d/src" "$d/.orig_src"   # pristine copy to compare against (never use git stash: it is shared between worktrees)
cat > "$d/.shim/importlib_resources.py" <<'EOS'
from importlib.resources import *  # noqa
from importlib.resources import files, as_file  # noqa
EOS
cat > "$d/RUN.md" <<EOS
Run anything against THIS tree's sources (pure Python; the srctools installed in site-packages is a different version and must not be used):
  cd $d && PYTHONPATH=$d/.shim:$d/src PYTHONDONTWRITEBYTECODE=1 /venv/bin/python your_demo.py
Run the same program against the ORIGINAL code (pristine copy, do not edit):
  cd $d && PYTHONPATH=$d/.shim:$d/.orig_src PYTHONDONTWRITEBYTECODE=1 /venv/bin/python your_demo.py
Never use git stash/checkout/reset here (the git metadata is shared with other worktrees).
Run the repository's tests against THIS tree:
  cd $d && PYTHONPATH=$d/.shim:$d/src PYTHONDONTWRITEBYTECODE=1 /venv/bin/python -m pytest -q -p no:cacheprovider -x tests/test_vmf.py   (or any other tests/test_*.py; the whole suite: add -n 12, about 2100 tests pass, the failures are only Cython-only or type_tests cases and are the same before and after your change)
EOS
echo "$d"
