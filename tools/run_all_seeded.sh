#!/bin/sh
# Runs every seeded change under seeded/ against its property's quick check (patched scratch copy of
# /repo/src via VERIF_SRC) and prints one line each; exit 1 if any is not detected.
# usage: run_all_seeded.sh [parallelism]
cd "$(dirname "$0")/.."
par=${1:-3}
ls -d seeded/*/ | while read d; do
  name=$(basename "$d"); prop=${name%%-*}
  grep -q '"obsolete": true' "$d/meta.json" 2>/dev/null && continue   # neutralised by a later /repo fix
  echo "$name $prop"
done > /tmp/seeded_list.$$
cat /tmp/seeded_list.$$ | xargs -P "$par" -L 1 sh -c '
  name=$0; prop=$1
  tools/try_mutant.sh seeded/$name/patch.diff $prop > /tmp/seeded_$name.out 2>&1
  rc=$?
  echo "SEEDED $name prop=$prop rc=$rc $( [ $rc -eq 1 ] && echo DETECTED || echo NOT-DETECTED )"
  rm -f /tmp/seeded_$name.out
'
rm -f /tmp/seeded_list.$$
