#!/usr/bin/env python3
"""Prints the prompt for a fresh mutation sub-agent: only the property text and its scratch worktree."""
import json, sys
pid, wt = sys.argv[1], sys.argv[2]
hint = sys.argv[3] if len(sys.argv) > 3 else ''
for l in open('/verif/properties.jsonl'):
    p = json.loads(l)
    if p['id'] == pid:
        break
print(f"""You are testing how well a semantic property of the Python library TeamSpen210/srctools is guarded. Work ONLY inside your own scratch git worktree of the repository at {wt} (read {wt}/RUN.md for how to run code and tests against this tree). Do not look at or touch /repo, /verif or any other directory under /tmp/mut.

The property (id {pid}): {p['title']}
Statement: {p['statement']}
Quantified over: {p['quantifier']['text']}
Anchored in: {', '.join(p['anchors']['files'])}; mechanisms: {'; '.join(m['name'] + ' (' + m.get('where', '') + ')' for m in p['anchors']['mechanism'])}

Task: make ONE small, realistic change to the library source under {wt}/src/srctools (the kind of regression a maintainer could plausibly introduce in a refactor, optimisation or bug fix - not sabotage that any use would expose at once) that BREAKS this property while the code still imports and the repository's existing tests for the touched modules still pass when run against your tree. The change must need something specific to manifest: a particular multi-step sequence of operations, an unusual but legal input, a particular interleaving/fault point, a boundary value, or two cooperating sites that each look fine alone. {hint}

Deliver, inside {wt}:
1. the source change itself (leave it applied in the worktree, uncommitted);
2. `demo.py` - a small standalone program that exits 0 on the ORIGINAL code and exits 1 (printing what went wrong) WITH your change, demonstrating the property violation through the public API;
3. `MUTANT.md` - which clause of the property it breaks, what it needs in order to manifest, which existing tests you ran (with the command from RUN.md) and that they pass with the change.
Verify both directions yourself (RUN.md shows how to run against the pristine copy `.orig_src`; never use git stash/checkout/reset - git metadata is shared with other worktrees). Keep the diff minimal (a few lines). Finish with a short summary of the change and the manifesting condition.""")
