#!/bin/sh
# usage: thorough_sweep.sh <seed> [props...]
seed=$1; shift
props=${*:-$(cat READY)}
for p in $props; do
  start=$(date +%s)
  VERIF_SEED=$seed VERIF_EVIDENCE_DIR=./sweep_ev VERIF_REPLAY_DIR=./sweep_rp timeout 3600 ./check $p --tier thorough > thor_$p.out 2>&1
  rc=$?
  echo "THOROUGH prop=$p seed=$seed rc=$rc wall=$(( $(date +%s) - start ))s $(grep -c '^VIOLATION' thor_$p.out) violations $(grep -c '^KNOWN-FINDING' thor_$p.out) known"
  [ $rc -ne 0 ] && { grep -E "new mismatch group|MACHINERY" thor_$p.out | head -8; tail -n 5 thor_$p.out; }
done
