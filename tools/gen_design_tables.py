#!/usr/bin/env python3
"""Rewrites the generated tables of DESIGN.md section 10 (between the GEN markers) from git history of
/repo, known_findings/*.json and seeded/*/meta.json."""
import json, subprocess, glob, os, re
HERE = os.path.dirname(os.path.dirname(os.path.abspath(__file__)))
log = subprocess.check_output(['git', '-C', '/repo', 'log', '--reverse', '--format=%h\t%s', 'fb7812c..HEAD'], text=True).splitlines()
byc = {}
openf = []
for p in sorted(glob.glob(HERE + '/known_findings/C*.json')):
    for f in json.load(open(p))['findings']:
        if f['status'] == 'fixed':
            byc.setdefault(f.get('commit', '?')[:7], []).append((f['property'], f['id']))
        else:
            openf.append(f)
rows = ['| commit | property: finding | what was wrong (commit subject) |', '|---|---|---|']
for l in log:
    c, s = l.split('\t', 1)
    if not s.startswith('fix:'):
        continue
    fs = byc.get(c[:7], [])
    rows.append(f"| {c} | {'; '.join(f'{p}: {i}' for p, i in fs) or '-'} | {s[5:]} |")
fix_tab = '\n'.join(rows)
rows = ['| finding | property | why it is recorded and not repaired |', '|---|---|---|']
for f in openf:
    rows.append(f"| {f['id']} | {f['property']} | {f.get('why_open', f['description'][:260]).replace('|', '/')} |")
open_tab = '\n'.join(rows)
rows = ['| seeded change | property | needs | detected | by |', '|---|---|---|---|---|']
for p in sorted(glob.glob(HERE + '/seeded/*/meta.json')):
    m = json.load(open(p))
    name = os.path.basename(os.path.dirname(p))
    needs = m.get('needs', '')
    if needs == 'see MUTANT.md':
        md = os.path.join(os.path.dirname(p), 'MUTANT.md')
        needs = 'see MUTANT.md'
    det = 'yes' if m.get('detected', True) else 'NO'
    if m.get('history'):
        det += ' (after strengthening)'
    rows.append(f"| {name} | {m['property']} | {needs[:160].replace('|', '/')} | {det} | {str(m.get('detected_by', ''))[:220].replace('|', '/')} |")
seed_tab = '\n'.join(rows)
rows = ['| property-preserving change | property | check stays quiet | what had to be corrected |', '|---|---|---|---|']
for p in sorted(glob.glob(HERE + '/benign/*/meta.json')):
    m = json.load(open(p))
    name = os.path.basename(os.path.dirname(p))
    q = 'yes' if m.get('quiet') else 'NO (false alarm, being corrected)'
    hist = m.get('history') or m.get('note') or ('-' if m.get('quiet') else 'alarmed on: ' + m.get('alarm_groups', ''))
    rows.append(f"| {name} | {m['property']} | {q} | {str(hist)[:300].replace('|', '/')} |")
benign_tab = '\n'.join(rows)
ms = [json.load(open(p)) for p in sorted(glob.glob(HERE + '/seeded/*/meta.json'))]
bs = [json.load(open(p)) for p in sorted(glob.glob(HERE + '/benign/*/meta.json'))]
n_obs = sum(1 for m in ms if m.get('obsolete'))
n_first = sum(1 for m in ms if m.get('detected', True) and not m.get('history') and not m.get('obsolete'))
n_after = sum(1 for m in ms if m.get('detected', True) and m.get('history') and not m.get('obsolete'))
n_miss = sum(1 for m in ms if not m.get('detected', True) and not m.get('obsolete'))
b_q0 = sum(1 for m in bs if m.get('quiet') and not (m.get('history') or m.get('correction')))
b_q1 = sum(1 for m in bs if m.get('quiet') and (m.get('history') or m.get('correction')))
b_no = sum(1 for m in bs if not m.get('quiet'))
stats_tab = (f"Totals (generated): {len(ms)} seeded property-breaking changes - {n_first} caught by the check as it stood, "
             f"{n_after} caught after the check was strengthened or the patch re-based (see `history` in each meta.json), "
             f"{n_miss} currently not caught, {n_obs} neutralised by a later /repo fix and kept for the record; "
             f"{len(bs)} property-preserving changes - {b_q0} left the check quiet as it stood, {b_q1} quiet after an "
             f"over-strict clause was restated, {b_no} currently alarming or no longer applicable (adopted as a fix).")
rows = ['| id | tier | seed | states | transitions | records validated against the implementation | wall s |', '|---|---|---|---|---|---|---|']
for p in sorted(glob.glob(HERE + '/evidence/C*.json')):
    e = json.load(open(p)); c = e['coverage']
    rows.append(f"| {e['property_id']} | {e['tier']} | {e['seed']} | {c.get('states', '')} | {c.get('transitions', '')} | {c.get('traces_validated_against_impl', '')} | {e['wall_s']} |")
evid_tab = '\n'.join(rows)
d = open(HERE + '/DESIGN.md').read()
for key, tab in (('EVID', evid_tab), ('FIXES', fix_tab), ('OPEN', open_tab), ('SEEDED', seed_tab), ('BENIGN', benign_tab), ('STATS', stats_tab)):
    a, b = f'<!-- GEN:{key}:BEGIN -->', f'<!-- GEN:{key}:END -->'
    if a in d:
        d = d[:d.index(a) + len(a)] + '\n' + tab + '\n' + d[d.index(b):]
open(HERE + '/DESIGN.md', 'w').write(d)
print('fix commits:', len(fix_tab.splitlines()) - 2, 'open findings:', len(openf), 'seeded:', len(seed_tab.splitlines()) - 2)
